#!/venv/bin/python
"""false-alarm sweep on the unchanged tree: every check, quick tier, many VERIF_SEED values.
usage: sweep.py <first_seed> <count> [budget_s]"""
import os, subprocess, sys, time
first, count = int(sys.argv[1]), int(sys.argv[2])
budget = sys.argv[3] if len(sys.argv) > 3 else "50"
bad = 0
for s in range(first, first + count):
    for p in ("C09", "C15", "C17", "C18"):
        t = time.time()
        r = subprocess.run(["/venv/bin/python", "/verif/run.py", "check", p], capture_output=True, text=True,
                           env={**os.environ, "VERIF_SEED": str(s), "VERIF_BUDGET_S": budget, "PSS_NO_EVIDENCE": "1",
                                "PSS_REPLAY_DIR": f"/tmp/pss_sweep_{s}_{p}"})
        last = [l for l in r.stdout.splitlines() if l.startswith(("OK", "VIOLATION", "HARNESS", "runs="))]
        print(f"seed={s} {p} rc={r.returncode} {time.time()-t:5.1f}s {' | '.join(x[:110] for x in last[-2:])}", flush=True)
        if r.returncode != 0:
            bad += 1
            print(r.stdout[-1500:])
print("SWEEP", "clean" if not bad else f"{bad} alarms")
sys.exit(1 if bad else 0)
