#!/venv/bin/python
"""regenerate the tables of DESIGN.md §10.2/§10.3 from mutants/index.json and seeded/*/meta.json"""
import json, os, re
V = "/verif"
s = open(f"{V}/DESIGN.md").read()
own = json.load(open(f"{V}/mutants/index.json"))
ob = "\n".join(f"| `{x['name']}` | {x['kind']} | {x['expect'] or '—'} | {x['what'][:170].replace('|', '/')} |" for x in sorted(own, key=lambda x: x['name']))
own_tbl = "| patch | kind | caught by | what |\n|---|---|---|---|\n" + ob
rows = []
for d in sorted(os.listdir(f"{V}/seeded")):
    m = json.load(open(f"{V}/seeded/{d}/meta.json"))
    what = open(f"{V}/seeded/{d}/notes.md").read().strip().splitlines()
    first = next((l.strip('# *').strip() for l in what if l.strip()), '')[:120]
    rows.append(f"| `{d}` | {m['property']} | {first.replace('|', '/')} | {', '.join(sorted((m.get('detected_by') or {}).keys()))} | {m.get('history', 'caught on first pass')} |")
seed_tbl = "| id | property | change (first line of its notes) | reported by | history |\n|---|---|---|---|---|\n" + "\n".join(rows)
def put(tag, body):
    global s
    a, b = f"<!-- BEGIN:{tag} -->", f"<!-- END:{tag} -->"
    assert a in s and b in s, tag
    s = s[:s.index(a) + len(a)] + "\n" + body + "\n" + s[s.index(b):]
put("own", own_tbl)
put("seeded", seed_tbl)
nb = sum(1 for x in own if x['kind'] == 'break'); ns = sum(1 for x in own if x['kind'] == 'silent')
s = re.sub(r"<!-- COUNTS -->.*?<!-- /COUNTS -->", f"<!-- COUNTS -->{nb} `break` patches, {ns} `silent` patches; {len(rows)} independent seeded changes<!-- /COUNTS -->", s, flags=re.S)
open(f"{V}/DESIGN.md", "w").write(s)
print(nb, ns, len(rows))
