#!/venv/bin/python
"""Sensitivity / silence matrix: apply each patch in /verif/mutants (or /verif/seeded/*/patch.diff) to /repo,
run the quick checks with a small budget, revert.  Usage: mutants.py [--budget S] [--only name,...] [--seeded]"""
import argparse, json, os, subprocess, sys, time
V = "/verif"
def sh(*a, **k):
    return subprocess.run(a, capture_output=True, text=True, **k)
WT = None
def clean():
    sh("git", "-C", WT or "/repo", "checkout", "--", ".")
def main():
    ap = argparse.ArgumentParser()
    ap.add_argument("--budget", default="18")
    ap.add_argument("--only", default="")
    ap.add_argument("--seeded", action="store_true")
    ap.add_argument("--allprops", action="store_true")
    ap.add_argument("--worktree", action="store_true", help="apply patches in a scratch worktree of /repo (PSS_REPO/PYTHONPATH) instead of /repo itself")
    a = ap.parse_args()
    global WT
    env_extra = {}
    if a.worktree:
        WT = f"/tmp/wt_mut_{os.getpid()}"
        r = sh("git", "-C", "/repo", "worktree", "add", "-q", "--detach", WT, "HEAD")
        assert r.returncode == 0, r.stderr
        env_extra = {"PSS_REPO": WT, "PYTHONPATH": WT}
    elif sh("git", "-C", "/repo", "status", "--porcelain", "--untracked-files=no").stdout.strip():
        print("refusing: /repo has uncommitted changes"); sys.exit(2)
    items = []
    if a.seeded:
        for d in sorted(os.listdir(f"{V}/seeded")):
            m = json.load(open(f"{V}/seeded/{d}/meta.json"))
            items.append({"name": d, "kind": "break", "expect": m["property"], "patch": f"{V}/seeded/{d}/patch.diff"})
    else:
        for x in json.load(open(f"{V}/mutants/index.json")):
            x["patch"] = f"{V}/mutants/{x['name']}.diff"
            items.append(x)
    only = set(filter(None, a.only.split(",")))
    rows = []
    for it in items:
        if only and it["name"] not in only:
            continue
        props = ["C09", "C15", "C17", "C18"] if (it["kind"] == "silent" or a.allprops) else it["expect"].split(",")
        r = sh("git", "-C", WT or "/repo", "apply", it["patch"])
        if r.returncode:
            print(it["name"], "PATCH DOES NOT APPLY", r.stderr[:200]); continue
        res = {}
        try:
            for p in props:
                t = time.time()
                out = sh("/venv/bin/python", f"{V}/run.py", "check", p, env={**os.environ, "VERIF_BUDGET_S": a.budget, "PSS_NO_EVIDENCE": "1", "PSS_REPLAY_DIR": f"/tmp/pss_replays_{os.getpid()}", **env_extra})
                res[p] = out.returncode
                first = next((l for l in out.stdout.splitlines() if l.startswith("  seed=")), "")
                print(f"{it['name']:45s} {p} rc={out.returncode} {time.time()-t:5.1f}s {first[:150]}", flush=True)
                if out.returncode == 2:
                    print("   " + "\n   ".join([l for l in out.stdout.splitlines() if "HARNESS" in l][:2])[:600])
        finally:
            clean()
            sh("bash", "-c", f"rm -rf /tmp/pss_replays_{os.getpid()}")
        ok = (any(v == 1 for v in res.values()) and 2 not in res.values()) if it["kind"] == "break" else all(v == 0 for v in res.values())
        rows.append((it["name"], it["kind"], res, ok))
    if a.worktree:
        sh("git", "-C", "/repo", "worktree", "remove", "--force", WT)
    print("\nSUMMARY")
    for n, k, res, ok in rows:
        print(f"{'ok  ' if ok else 'MISS'} {k:6s} {n:45s} {res}")
    sys.exit(0 if all(r[3] for r in rows) else 1)
main()
