#!/venv/bin/python
"""Confirm a sub-agent's seeded change in its scratch worktree (never in /repo):
demo passes clean, fails patched; test suite unchanged with the patch.
usage: confirm_seeded.py <worktree> <i> <property> <seeded-id>   -> writes /verif/seeded/<seeded-id>/"""
import json, os, re, shutil, subprocess, sys
wt, i, prop, sid = sys.argv[1:5]
def sh(cmd, **k):
    return subprocess.run(cmd, shell=True, capture_output=True, text=True, cwd=wt, **k)
BASE_FAIL = {"test_proposition_polyhedron_conversions", "test_proposition_negation", "puan.logic.plog.AtLeast.evaluate",
             "puan.logic.plog.AtLeast.evaluate_propositions", "puan.logic.plog.AtLeast.reduce", "puan.logic.plog.AtLeast.solve",
             "puan.ndarray.ge_polyhedron.ineqs_satisfied", "puan.ndarray.ge_polyhedron.separable", "puan.ndarray.ge_polyhedron_config.select"}
sh("git checkout -- puan")
assert sh("git status --porcelain --untracked-files=no").stdout.strip() == "", "worktree not clean"
clean = sh(f"/venv/bin/python -W ignore demo{i}.py")
ap = sh(f"git apply patch{i}.diff")
assert ap.returncode == 0, ("patch does not apply", ap.stderr)
try:
    patched = sh(f"/venv/bin/python -W ignore demo{i}.py")
    t = sh("/venv/bin/python -m pytest -q -p no:cacheprovider --timeout=900 2>&1 | tail -15")
finally:
    sh("git checkout -- puan")
tail = t.stdout
m = re.search(r"(\d+) failed, (\d+) passed", tail)
failed = set(re.findall(r"FAILED \S+::(\S+)", tail))
suite_ok = bool(m) and m.group(1) == "9" and m.group(2) == "125" and failed == BASE_FAIL
res = {"demo_clean_rc": clean.returncode, "demo_patched_rc": patched.returncode, "suite": m.group(0) if m else tail[-200:], "suite_same_failures": failed == BASE_FAIL}
print(sid, res)
ok = clean.returncode == 0 and patched.returncode != 0 and suite_ok
if ok:
    d = f"/verif/seeded/{sid}"
    os.makedirs(d, exist_ok=True)
    shutil.copy(f"{wt}/patch{i}.diff", f"{d}/patch.diff")
    shutil.copy(f"{wt}/demo{i}.py", f"{d}/demo.py")
    shutil.copy(f"{wt}/notes{i}.md", f"{d}/notes.md")
    json.dump({"id": sid, "property": prop, "source": "independent sub-agent given only the property text and a scratch worktree",
               "needs": open(f"{wt}/notes{i}.md").read()[:1500],
               "confirmed": {"how": "tools/confirm_seeded.py in the scratch worktree: demo on clean tree, demo with patch, full pytest with patch", **res},
               "detected_by": None}, open(f"{d}/meta.json", "w"), indent=1)
sys.exit(0 if ok else 1)
