"""check orchestration: known findings, determinism sample, batch, evidence, replay files."""
import hashlib
import json
import os
import subprocess
import sys
import time

from . import driver, engine, procs, shrink

VERIF = driver.VERIF
COMPONENTS = {
    "real": ["puan.* (all of /repo/puan from the working tree)", "puan_rspy (polyhedron construction, bit allocation, built-in solver)",
             "numpy", "pickle/gzip/base64", "json"],
    "stub": ["external solver (scripted peer: exact brute-force ILP + fault answers)", "snapshot store (driver-owned dict of strings)"],
}


def _props():
    from . import props
    return props.PROPS


def replay(path, verbose=False, force_shims=None):
    """re-execute a replay file in this (fresh) process tree. returns 1 if the violation reproduces, else 0."""
    with open(path) as f:
        rp = json.load(f)
    spec = _props()[rp["property"]]
    shims = tuple(rp.get("shims", ())) if force_shims is None else tuple(force_shims)
    driver._init_worker()
    try:
        div = spec.recheck(rp["ops"], shims, None)
    except procs.HarnessError as e:
        print(f"HARNESS-ERROR replay failed: {e}")
        return 2
    want = tuple(rp.get("class") or ())
    if div is not None and (not want or shrink.classify(div) == want):
        if verbose:
            print(f"VIOLATION property={rp['property']} replay={path}")
            print(json.dumps({"class": shrink.classify(div), "at": div.get("at"), "op": div.get("op"),
                              "handle": div.get("handle"), "sut": div.get("sut"), "ref": div.get("ref")}, indent=1)[:6000])
        return 1
    if verbose:
        print(f"replay {path}: no violation" + ("" if div is None else f" (different class {shrink.classify(div)})"))
    return 0 if div is None else 1


def write_replay(prop, seed, index, small, mask):
    d = os.path.join(os.environ.get("PSS_REPLAY_DIR") or os.path.join(VERIF, "replays"), prop)
    os.makedirs(d, exist_ok=True)
    body = {"property": prop, "seed": seed, "index": index, "shims": list(mask), "class": list(small["class"]),
            "ops": small["ops"], "divergence": small["divergence"], "minimised_from": small["original_len"],
            "shrink_evals": small["evals"],
            "how": "run.py replay <this file>: executes ops in one fresh process (SUT) and each op's dependency "
                   "slice in its own pristine process (reference); the first difference is the violation"}
    dig = hashlib.sha256(json.dumps(small["ops"], sort_keys=True).encode()).hexdigest()[:10]
    path = os.path.join(d, f"{seed}-{dig}.json")
    with open(path, "w") as f:
        json.dump(body, f, indent=1, sort_keys=True)
    return path


def confirm_replay(path):
    """fresh interpreter must reproduce"""
    p = subprocess.run([sys.executable, os.path.join(VERIF, "run.py"), "replay", path], capture_output=True, text=True,
                       timeout=600)
    return p.returncode == 1, p.stdout[-2000:] + p.stderr[-2000:]


def known_findings_phase(prop):
    """replay every listed witness raw. returns (lines, violations)"""
    kf = driver.load_known()
    lines, viols, reproduced = [], [], []
    for e in kf["findings"]:
        if e["property"] != prop:
            continue
        path = os.path.join(VERIF, e["witness"])
        rc = replay(path, force_shims=())
        if e["status"] == "known":
            if rc == 1:
                lines.append(f"KNOWN-FINDING: property={prop} {e['id']} {e['what_fails']}")
                reproduced.append(e["id"])
                # and the neutraliser must cancel it (otherwise the mask is wrong)
                if replay(path, force_shims=(e["neutraliser"],)) != 0:
                    viols.append((e, path, "neutraliser does not cancel the listed finding"))
        else:  # fixed: suppresses nothing
            if rc == 1:
                viols.append((e, path, "fixed finding is back"))
    return lines, viols, reproduced


def determinism_sample(prop, base, n=4):
    """same seeds: twice in this interpreter tree and once in a fresh interpreter under another PYTHONHASHSEED"""
    mask = driver.mask_for(prop)
    driver._init_worker()
    a = [driver.run_one(prop, base, i, "quick", mask, False, True, False) for i in range(n)]
    b = [driver.run_one(prop, base, i, "quick", mask, False, True, False) for i in range(n)]
    for x, y in zip(a, b):
        if x.get("harness_error") or y.get("harness_error"):
            return False, f"harness error in determinism sample: {x.get('harness_error') or y.get('harness_error')}"
        if x.get("violation") or y.get("violation"):
            continue   # a run that exposes a violation is reported as such; a broken SUT may be hash-order dependent
        if x["digest"] != y["digest"]:
            return False, f"run index {x['index']} not reproducible in-process"
    env = dict(os.environ)
    env["PYTHONHASHSEED"] = "4242"
    p = subprocess.run([sys.executable, "-W", "ignore::SyntaxWarning", os.path.join(VERIF, "run.py"), "digest", prop, "0", str(n), "--seed", str(base)],
                       capture_output=True, text=True, env=env, timeout=600)
    got = {}
    for line in p.stdout.splitlines():
        try:
            j = json.loads(line)
            got[j["index"]] = "VIOLATION" if j.get("violation") else j.get("digest")
        except Exception:
            pass
    for x in a:
        if x.get("violation") or got.get(x["index"]) == "VIOLATION":
            continue
        if got.get(x["index"]) != x["digest"]:
            return False, f"run index {x['index']} differs under PYTHONHASHSEED=4242 ({p.stderr[-300:]})"
    return True, f"{n} seeds x (2 in-process + 1 fresh interpreter, other PYTHONHASHSEED): identical digests"


def selftest(base, count, verbose=False):
    """determinism of the simulator on a large sample: every seed is generated+executed
    (a) sequentially in this process tree, (b) in a 16-worker pool, (c) in a 3-worker pool,
    (d) in a fresh interpreter under another PYTHONHASHSEED; all four digests must agree."""
    ok_all = True
    for prop in sorted(_props()):
        mask = driver.mask_for(prop)
        driver._init_worker()
        seq = {}
        for i in range(count):
            r = driver.run_one(prop, base, i, "quick", mask, False, True)
            seq[i] = r.get("digest") or ("ERR " + str(r.get("harness_error"))[:200])
        bad = []
        for jobs in (16, 3):
            res = driver.batch(prop, base, "quick", 3600, jobs, 0, count, raw_every=10 ** 9, digests=True)
            got = {r["index"]: r.get("digest") for r in res if "index" in r}
            bad += [(jobs, i) for i in range(count) if got.get(i) != seq[i]]
        env = dict(os.environ)
        env["PYTHONHASHSEED"] = "977"
        p = subprocess.run([sys.executable, "-W", "ignore::SyntaxWarning", os.path.join(VERIF, "run.py"), "digest", prop, "0", str(count),
                            "--seed", str(base)], capture_output=True, text=True, env=env, timeout=3600)
        got = {}
        for line in p.stdout.splitlines():
            try:
                j = json.loads(line)
                got[j["index"]] = j.get("digest")
            except Exception:
                pass
        bad += [("hashseed977", i) for i in range(count) if got.get(i) != seq[i]]
        errs = [i for i in seq if str(seq[i]).startswith("ERR")]
        ok = not bad and not errs
        print(f"selftest {prop}: {'ok' if ok else 'FAIL'} – {count} seeds x (sequential, 16 workers, 3 workers, fresh interpreter PYTHONHASHSEED=977)"
              + ("" if ok else f" mismatches={bad[:6]} errors={errs[:6]}"))
        sys.stdout.flush()
        ok_all &= ok
    return 0 if ok_all else 2


def run_check(prop, tier, base, jobs, budget, t0):
    spec = _props()[prop]
    code = 0
    out_lines = []
    harness_errors = []
    # 1. known findings
    kf_lines, kf_viol, kf_repro = known_findings_phase(prop)
    for l in kf_lines:
        print(l)
    violations = []
    for e, path, why in kf_viol:
        print(f"VIOLATION property={prop} replay={path}")
        print(f"  ({e['id']}: {why})")
        violations.append({"replay": path, "why": why})
    # 2. determinism sample
    det_ok, det_msg = determinism_sample(prop, base, 3 if tier == "quick" else 12)
    print(f"determinism: {'ok' if det_ok else 'FAIL'} – {det_msg}")
    if not det_ok:
        harness_errors.append(det_msg)
    sys.stdout.flush()
    # 3. batch
    left = max(5.0, budget - (time.time() - t0))
    results = driver.batch(prop, base, tier, left, jobs)
    mask = driver.mask_for(prop)
    unconfirmed = []
    agg = aggregate(spec, results)
    run_errors = []
    for r in results:
        if r.get("harness_error"):
            run_errors.append(f"run {r.get('index')}: {r['harness_error']}")
        v = r.get("violation")
        if v:
            path = write_replay(prop, r["seed"], r["index"], v, mask)
            ok, txt = confirm_replay(path)
            note = ""
            if not ok and v.get("unshrunk_ops"):
                # the minimised history does not reproduce in a fresh interpreter (the failure depends on
                # something outside the program, typically memory addresses): fall back to the history as run
                os.remove(path)
                big = dict(v, ops=v["unshrunk_ops"], divergence=v["unshrunk_divergence"],
                           **{"class": list(shrink.classify(v["unshrunk_divergence"]))})
                path = write_replay(prop, r["seed"], r["index"], big, mask)
                for attempt in range(3):
                    ok, txt = confirm_replay(path)
                    if ok:
                        break
                note = " [not minimised: the shrunk history did not reproduce in a fresh interpreter – address/allocator dependent]"
                v = big
            if not ok:
                unconfirmed.append(f"replay {path} did not reproduce in a fresh interpreter: {txt[-300:]}")
                continue
            print(f"VIOLATION property={prop} replay={path}")
            d = v["divergence"]
            print(f"  seed={r['seed']} run={r['index']} class={v['class']} minimised {v['original_len']}->{len(v['ops'])} ops "
                  f"({v['evals']} re-executions){note}")
            print("  " + json.dumps({"at": d.get("at"), "op": d.get("op"), "handle": d.get("handle"), "sut": d.get("sut"), "ref": d.get("ref")})[:1500])
            violations.append({"replay": path, "class": v["class"]})
    wall = time.time() - t0
    if violations and not harness_errors:
        # a confirmed, replayable violation stands; trouble in *other* runs of the same batch (a broken SUT may hang
        # or fail to replay) is reported but does not turn the verdict into a harness fault
        for u in (unconfirmed + run_errors)[:4]:
            print("NOTE (other runs of this batch; the confirmed violation above stands): " + u[:300])
    else:
        # no confirmed violation: an unreproducible divergence or a run that could not be executed is never a pass
        harness_errors += unconfirmed + run_errors
    write_evidence(prop, tier, base, agg, wall, violations, harness_errors, det_msg, kf_repro, jobs, mask)
    print(f"runs={agg['runs']} ops={agg['ops']} distinct_nontrivial={agg['distinct_nontrivial']} "
          f"runs/h={int(agg['runs'] / max(wall, 1e-9) * 3600)} faults={json.dumps(agg['fault_counts'], sort_keys=True)}")
    if harness_errors:
        for h in harness_errors[:5]:
            print("HARNESS-ERROR " + h[:1500])
        return 2
    if violations:
        return 1
    print(f"OK property={prop} held on everything explored ({agg['runs']} runs)")
    return 0


def aggregate(spec, results):
    runs = [r for r in results if "nops" in r]
    sigs = set()
    fault = {}
    hits = {}
    skipped = {}
    triples = set()
    samples = []
    raw_div = 0
    raw_runs = 0
    fault_free_runs = 0
    forks = 0
    pairset = set()
    fpset = set()
    from . import gen as _gen
    for r in runs:
        meta = r["meta"]
        pairset |= _gen.pairs(meta)
        fpset.update(r.get("state_fps") or [])
        if spec.nontrivial(meta):
            sigs.add(hashlib.sha256(repr(spec.signature(meta)).encode()).hexdigest())
        for k, v in sorted(meta.get("fired", {}).items()):
            fault[k] = fault.get(k, 0) + v
        for k, v in sorted(meta.get("hits", {}).items()):
            hits[k] = hits.get(k, 0) + v
        for k, v in sorted(meta.get("skipped", {}).items()):
            skipped[k] = skipped.get(k, 0) + v
        if meta.get("mode"):
            hits["restore-target:" + meta["mode"]] = hits.get("restore-target:" + meta["mode"], 0) + 1
        if meta.get("triple"):
            triples.add(tuple(meta["triple"]))
        if "sample" in r and len(samples) < 3:
            samples.append({"seed": r["seed"], "run": r["index"], "ops": r["sample"]})
        if r.get("raw_inconclusive"):
            hits["raw-execution-inconclusive:" + r["raw_inconclusive"]] = hits.get("raw-execution-inconclusive:" + r["raw_inconclusive"], 0) + 1
        if "raw_divergence" in r:
            raw_runs += 1
            if r["raw_divergence"]:
                raw_div += 1
        if meta.get("profile", {}).get("fault_free"):
            fault_free_runs += 1
        forks += r.get("forks", 0)
    return {"runs": len(runs), "ops": sum(r["nops"] for r in runs), "distinct_nontrivial": len(sigs),
            "pairs": len(pairset), "state_fps": len(fpset), "fault_counts": fault, "hits": hits, "skipped": skipped, "triples": len(triples), "samples": samples, "raw_runs": raw_runs,
            "raw_divergent_runs": raw_div, "fault_free_runs": fault_free_runs, "forks": forks,
            "seeds": [r["seed"] for r in runs[:20]]}


RULES = {
    "C09": "one evaluation = one op of a seeded program executed in the SUT session (one process, masked known findings) and "
           "compared with its pristine-process reference (same op on freshly built identical objects, process with no past); "
           "a history is non-trivial when it contains a potentially state-bearing event (interpretation naming a compound id, "
           "aborted call, cache-filling or object-deriving call, solver exchange) followed by a later observation on the same, an "
           "alias-sharing, a near-twin or a derived object; distinct = distinct abstract histories (sequence of (method, "
           "relation-to-first-object, fault tags)), hashed; distinct_event_observation_pairs is the coarser additive measure",
    "C15": "one evaluation = one op of a seeded session (solve/select requests served by the scripted peer, benign queries and "
           "derivations in between); every request that crosses the seam is verified against absolute by-id oracles (see "
           "probes_fired c15:*); a session is non-trivial when at least one request crossed the seam; distinct = distinct abstract "
           "histories (sequence of (method, relation, peer mode + fault tags)), hashed",
    "C17": "one evaluation = one op of a seeded session executed twice (uncrashed primary; replica across crash/restore); a "
           "session is non-trivial when an object was restored from the store and at least one op followed; distinct = distinct "
           "abstract histories (restore target + sequence of (method, phase:kind, fault tags)), hashed",
    "C18": "one evaluation = one op of a seeded addition history compared with the same op on directly constructed "
           "configurators in a pristine process; a history is non-trivial when an addition was accepted or refused and an "
           "observation of the new or the original version followed; distinct = distinct abstract histories (sequence of "
           "(method, version depth, outcome/fault tags)), hashed",
}


def write_evidence(prop, tier, base, agg, wall, violations, harness_errors, det_msg, kf_repro, jobs, mask):
    os.makedirs(os.path.join(VERIF, "evidence"), exist_ok=True)
    ev = {
        "property_id": prop, "tier": tier, "seed": base, "level": "exploration",
        "coverage": {
            "evaluations": agg["ops"],
            "distinct_nontrivial": agg["distinct_nontrivial"],
            "rule": RULES.get(prop, RULES["C09"]),
            "samples": agg["samples"] or [{"note": "no sample run in this batch"}],
            "runs": agg["runs"],
            "distinct_event_observation_pairs": agg["pairs"],
            "distinct_object_table_states_at_audits": agg["state_fps"],
            "runs_per_hour": int(agg["runs"] / max(wall, 1e-9) * 3600),
            "ops_per_hour": int(agg["ops"] / max(wall, 1e-9) * 3600),
            "simulated_time": f"n/a – no clock in the SUT; logical steps (ops executed and compared) = {agg['ops']}",
            "fault_decisions_generated": agg["fault_counts"],
            "probes_fired": agg["hits"],
            "ops_dropped": agg["skipped"],
            "fault_free_runs": agg["fault_free_runs"],
            "share_of_ops_with_ordinary_result": round(agg["hits"].get("op-outcome:ordinary-result", 0) / max(1, agg["hits"].get("op-outcome:ordinary-result", 0) + agg["hits"].get("op-outcome:raised", 0)), 3),
            "mandatory_triples_covered": agg["triples"],
            "processes_forked": agg["forks"],
            "raw_runs": agg["raw_runs"],
            "raw_runs_diverging_only_through_known_findings": agg["raw_divergent_runs"],
            "known_findings_reproduced": kf_repro,
            "masked_with": list(mask),
            "determinism_selftest": det_msg,
            "components": COMPONENTS,
            "first_seeds": agg["seeds"],
            "jobs": jobs,
            "harness_errors": harness_errors[:5],
        },
        "assumptions": [
            "O-pristine runs the same library code in a process with no past: verdicts are relative (purity), not absolute correctness",
            "canonical form compares public state only (private attributes, dict order, numpy-vs-int, pickle layout ignored)",
            "generated models are well-defined by the harness' own bookkeeping; thread interleavings are out of scope",
        ],
        "wall_s": round(wall, 2),
        "violations": len(violations),
    }
    if os.environ.get("PSS_NO_EVIDENCE"):
        return   # tooling runs against deliberately broken trees must not overwrite the evidence of record
    with open(os.path.join(VERIF, "evidence", f"{prop}.json"), "w") as f:
        json.dump(ev, f, indent=1, sort_keys=True)
