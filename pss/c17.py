"""C17 – base64 round trip as crash → restore-in-another-process → lock-step equivalence (DESIGN §4 C17).

primary : one process, never crashes; a `restore` hands back the *live original* (alias).
replica : process 1 runs up to the crash and dies; only the store (b64 strings) survives; process 2
          (fresh fork of this interpreter's zygote, or of a second interpreter exec'ed under another
          PYTHONHASHSEED) restores from the store and receives the same remaining ops.
Oracle  : (i) dump right after restore equal; (ii) every later op yields equal canonical results.
"""
import copy

from . import engine, gen, procs
from . import recipes as R

ALT_HASHSEED = 4242
POLY_OPS = ["select", "select", "select", "dump", "to_b64", "poly_b64_rt"]


# ----------------------------------------------------------------------------- execution

def run_primary(ops, mask):
    return procs.run_child(engine.child_all, (ops,), shims=mask) if not _has_restore(ops) else \
        procs.run_child(procs._child_all_kw, (ops, {"alias_restore": True}), shims=mask)


def _has_restore(ops):
    return any(o["op"] == "restore" for o in ops)


def run_replica(ops, mask, timeout=None):
    """segments separated by crash ops; only the store survives a crash"""
    results = []
    store = {}
    start = 0
    seg = 0
    audit = None
    while start < len(ops):
        end = next((i for i in range(start, len(ops)) if ops[i]["op"] == "crash"), None)
        chunk = ops[start:end + 1] if end is not None else ops[start:]
        into = ops[start - 1].get("into", "fresh") if start > 0 else "first"
        kw = {"store": store, "stop_on_crash": True, "final_audit": end is None}
        if into == "alt":
            r = procs.alt_zygote(ALT_HASHSEED).call("child_all", [chunk, kw], shims=mask, timeout=timeout)
        else:
            r = procs.run_child(procs._child_all_kw, (chunk, kw), shims=mask, timeout=timeout)
        results += r["results"]
        store = r["store"]
        audit = r.get("audit")
        if end is None:
            break
        start = end + 1
        seg += 1
    return {"results": results, "audit": audit, "store": store}


def restore_equals_snapshot(ops, run, note=""):
    snap = {}
    for k, op in enumerate(ops):
        if k >= len(run):
            break
        if op["op"] == "snapshot" and "dump" in run[k]:
            snap[op["key"]] = run[k]["dump"]
        if op["op"] == "restore" and op["key"] in snap:
            got = run[k].get("obj")
            if got != snap[op["key"]]:
                return {"kind": "restore", "at": k, "op": op, "sut": run[k], "ref": {"obj": snap[op["key"]]},
                        "why": "restored object differs from what was packed" + note}
    return None


def raw_restore_check(ops, hits=None):
    """oracle (iii) once more with *no* neutraliser active: whatever a query may leave behind on one restored copy
    (the recorded write-back of C09-KF1 does), unpacking the same string again must still give what was packed.
    Only (iii) is evaluated in this execution – lock-step is not (primary aliases and replica copies legitimately
    drift apart once a copy absorbs state).

    Without the neutraliser a model may be left in a state no pristine reference vetted, and the library's built-in
    (beta) solver – which the generator only keeps in a program when it terminates in the pristine reference – need not
    terminate on it (seed 1 / run 1347: evaluate names a compound id, the write-back turns the model into one on which
    puan_rspy's solve() loops).  No property speaks about that; such an execution is cut short and repeated with the
    built-in solver's requests served by the scripted peer, which leaves oracle (iii) exactly as it is."""
    if not any(o["op"] == "restore" for o in ops):
        return None
    tmo = engine.raw_timeout(ops)
    try:
        rep = run_replica(ops, (), timeout=tmo)
    except procs.ChildTimeout:
        if tmo is None:
            raise
        if hits is not None:
            hits["c17:raw execution repeated with the peer (built-in solver did not terminate on written-back state)"] = 1
        rep = run_replica(engine.without_builtin_solver(ops), ())
    for k, op in enumerate(ops):
        if op["op"] == "snapshot" and k < len(rep["results"]) and "snap" not in rep["results"][k]:
            return None
    return restore_equals_snapshot(ops, rep["results"], " (execution without neutralisers)")


def lockstep(ops, primary, replica):
    first = next((i for i, o in enumerate(ops) if o["op"] == "snapshot"), len(ops))
    pr, rr = primary["results"], replica["results"]
    for k, op in enumerate(ops):
        if op["op"] == "snapshot" and k < len(pr) and "snap" not in pr[k]:
            return None   # the object could not be packed at all (not a b64-able handle): nothing to compare
    # (iii) every restore reproduces what was packed (dump taken at snapshot time, same execution) – also for
    #       restores that follow a caller's in-place edit of an earlier restored copy
    d = restore_equals_snapshot(ops, rr)
    if d is not None:
        return d
    stop = next((i for i, o in enumerate(ops) if o["op"] == "call" and o.get("m") == "mutate"), len(ops))
    for k in range(first, stop):
        op = ops[k]
        if op["op"] in ("crash", "audit"):
            continue
        if k >= len(pr) or k >= len(rr):
            return {"kind": "missing", "at": k, "op": op}
        a, b = engine.strip(pr[k]), engine.strip(rr[k])
        if "operr" in a or "operr" in b:
            return {"kind": "operr", "at": k, "op": op, "sut": b, "ref": a}
        if a != b:
            kind = "restore" if op["op"] == "restore" else "lockstep"
            return {"kind": kind, "at": k, "op": op, "sut": b, "ref": a,
                    "why": "restored object differs from the live original" if kind == "restore"
                    else "replica answers differently from the primary"}
    if stop < len(ops):
        return None   # after a caller's in-place edit primary (aliases) and replica (copies) legitimately differ
    # final audits of post-restore handles
    pa, ra = primary.get("audit") or {}, replica.get("audit") or {}
    for h in sorted(ra):
        if h in pa and pa[h] != ra[h]:
            return {"kind": "audit", "at": len(ops), "handle": h, "sut": ra[h], "ref": pa[h],
                    "why": "state of a restored/derived object differs at the end of the session"}
    return None


# ----------------------------------------------------------------------------- generation

def gen_c17(rng, oracle, index, tier="quick"):
    p = gen.make_profile(rng, tier)
    p["nops"] = rng.choice([4, 8, 12, 15])
    if rng.random() < 0.3:
        # wider integers: constants and big-M coefficients that do not fit the narrowest integer types
        p["bounds_family"] = rng.choice(["medium", "medium", "huge", "wide"])
        p["int_leaf_prob"] = max(p["int_leaf_prob"], 0.5)
    p["prefix_const_prob"] = rng.choice([0, 0.05])
    g = gen.Gen(rng, p, oracle, max_box=1 << 13)
    # ---- pre-history
    nmodels = rng.choice([1, 1, 2])
    for i in range(nmodels):
        if i and rng.random() < p["alias_prob"]:
            g.new_model(alias_of=rng.choice(g.order))
        else:
            g.new_model(want_cfg=rng.random() < 0.6)
    twins = []
    if rng.random() < 0.35:
        # a near-twin (same ids and shape, leaf bounds with equal hash sum / default dropped): both are packed
        # and unpacked in the same process – interning or caching by weak identity would mix them up
        t0 = rng.choice(g.order)
        t1 = g.twin(t0)
        if t1:
            twins = [t0, t1]
    for _ in range(rng.randint(0, 8)):
        if g.step_iterators():
            continue
        h = g.pick_target()
        op, tags = g.op_for(h)
        before = len(g.ops)
        g.emit(op, {"base": op["h"]} if op.get("out") else None)
        if len(g.ops) > before:
            g.events.append((op["m"], "pre", tuple(sorted(tags))))
    # ---- a configurator polyhedron built by hand (other dtypes than the int64 every proposition produces)
    rawpolys = []
    if rng.random() < 0.15:
        n = rng.randint(2, 5)
        ids = sorted(rng.sample(sorted(g.leafb), min(n, len(g.leafb))))
        dt = rng.choice(["float64", "float64", "int32", "int16", "int64", "float32"])
        rows = []
        for _ in range(rng.choice([0, 1, 1, 2, 3, 4])):
            if dt.startswith("float"):
                rows.append([rng.choice([0, 1, -1, 0.5, 1.5, -2.5])] + [rng.choice([0, 1, -1, 0.5, -0.5, 2]) for _ in ids])
            else:
                big = [2 ** 31, -(2 ** 31), 2 ** 31 - 1, 2 ** 15, 128, -129] if dt == "int64" and rng.random() < 0.3 else []
                rows.append([rng.randint(-3, 3)] + [rng.choice([0, 1, -1, 2, -2] + big) for _ in ids])
        vs = [[0, 1, 1]] + [[i, g.leafb[i][0], g.leafb[i][1]] for i in ids]
        dpv = None if rng.random() < 0.3 else [rng.choice([-1, -1, -2, -3]) for _ in ids]
        ph = g.fresh("p")
        opts = {}
        if rng.random() < 0.5:
            # memory layouts numpy hands out every day: Fortran order, strided views of a larger buffer
            opts["layout"] = rng.choice(["F", "rowslice", "colslice"])
        if rows and rng.random() < 0.4:
            # named rows (the row index is part of what a round trip must reproduce)
            names = rng.sample(["R1", "R2", "R9", "R10", "rowA", "rowB", "0", "1"], len(rows))
            opts["index"] = [[nm, 0, rng.choice([1, 1, 3])] for nm in names]
            if rng.random() < 0.35:
                # rows labelled 0..n-1 like the default index, but with bounds of their own
                opts["index"] = [[i, rng.choice([0, 1, -2]), rng.choice([1, 2, 4])] for i in range(len(rows))]
        g.emit({"op": "new", "h": ph, "recipe": ["rawpoly", rows, dt, vs, dpv] + ([opts] if opts else [])})
        if ph in g.handles:
            rawpolys.append(ph)
            box = 1
            for i in ids:
                box *= (g.leafb[i][1] - g.leafb[i][0] + 1)
            g.handles[ph]["info"] = None
            g.handles[ph]["fake_info"] = {"kind": "poly", "top": None, "leaves": {i: g.leafb[i] for i in ids}, "comps": {},
                                          "box": (1 << 30) if dt.startswith("float") else box, "bool": False,
                                          "has_default": False, "solver_safe": True}
            g.events.append(("new-rawpoly", dt, ()))
            g.hit("c17:hand-built-polyhedron:" + dt)
            if opts.get("layout"):
                g.hit("c17:hand-built-layout:" + opts["layout"])
            if opts.get("index"):
                g.hit("c17:hand-built-named-rows")
    # ---- choose what to snapshot
    targets = []
    objs = [h for h in g.order if g.handles[h]["kind"] in ("prop", "cfg")]
    for h in rng.sample(objs, min(len(objs), rng.choice([1, 1, 2]))):
        targets.append((h, "prop"))
    for h in twins:
        if (h, "prop") not in targets:
            targets.append((h, "prop"))
    cfgs = [h for h in g.order if g.handles[h]["kind"] == "cfg"]
    if cfgs and rng.random() < 0.6:
        c = rng.choice(cfgs)
        ph = g.fresh("p")
        ref = g.emit({"op": "call", "h": c, "m": "ge_polyhedron_h", "out": ph}, {"base": c})
        if ph in g.handles:
            targets.append((ph, "poly"))
    for ph in rawpolys:
        targets.append((ph, "poly"))
    keys = []
    for h, kind in targets:
        key = f"k{len(keys) + 1}"
        g.emit({"op": "snapshot", "h": h, "key": key})
        keys.append((key, h, kind))
        g.events.append(("snapshot", kind, ()))
    mode = rng.choice(["same", "fresh", "fresh", "alt", "alt"])
    if mode != "same":
        g.emit({"op": "crash", "into": "alt" if mode == "alt" else "fresh"})
        g.fault("crash-restart")
        # nothing but the store survives
        for it in sorted(g.its):
            del g.its[it]
        g.order = []
    restored = []
    for key, src, kind in keys:
        n = 2 if rng.random() < 0.25 else 1
        if n == 2:
            g.fault("dup-restore")
        for _ in range(n):
            h = g.fresh("r")
            g.emit({"op": "restore", "key": key, "h": h, "src": src, "kind": kind}, {"base": src, "src": src})
            if h in g.handles:
                restored.append(h)
                g.events.append(("restore", kind + ":" + mode, ()))
    if mode == "same":
        # replicas co-resident with their originals: keep driving only the replicas (and derived objects)
        g.order = [h for h in g.order if h in restored]
    # ---- post-history, lock-step
    npost = rng.randint(3, 15)
    guard = 0
    done = 0
    while done < npost and guard < 80 and g.order:
        guard += 1
        if g.step_iterators():
            done += 1
            continue
        h = g.pick_target(kinds=("prop", "cfg", "var", "poly"))
        if h is None:
            break
        if g.handles[h]["kind"] == "poly":
            op, tags = poly_op(g, h)
        else:
            op, tags = g.op_for(h)
            if op["m"] == "eq":
                continue
        before = len(g.ops)
        g.emit(op, {"base": op["h"]} if op.get("out") else None)
        if len(g.ops) > before:
            g.events.append((op["m"], "post:" + g.handles[h]["kind"], tuple(sorted(tags))))
            done += 1
    for it in sorted(g.its):
        if rng.random() < 0.7:
            g.emit({"op": "drain", "it": it})
    # ---- a freshly built equal object meets the restored one (hash / equality must agree in the new process)
    rprops = [h for h in restored if h in g.order and g.handles[h]["kind"] in ("prop", "cfg") and g.recipe_of(h) is not None
              and not R.refs(g.recipe_of(h))]
    if rprops and rng.random() < 0.35:
        h = rng.choice(rprops)
        c = g.fresh()
        g.emit({"op": "new", "h": c, "recipe": copy.deepcopy(g.recipe_of(h))}, {"twin_of": h})
        if c in g.handles:
            g.emit({"op": "call", "h": h, "m": "eq", "a": {"other": c}})
            g.events.append(("eq", "post:restored-vs-fresh-clone", ()))
            g.hit("c17:restored-object-compared-with-freshly-built-equal-one")
    # ---- the same string is unpacked once more, late, after the first copy has lived some history
    late = [(key, src, kind) for key, src, kind in keys if kind == "prop"]
    if late and rng.random() < 0.4:
        key, src, kind = rng.choice(late)
        h2 = g.fresh("r")
        g.emit({"op": "restore", "key": key, "h": h2, "src": src, "kind": kind}, {"base": src, "src": src})
        g.events.append(("restore", "late:" + mode, ()))
        if h2 in g.handles:
            g.hit("c17:late-second-unpack-of-the-same-string")
            op, tags = g.op_for(h2, rng.choice(["to_text", "flatten", "to_ge_polyhedron", "evaluate", "errors"]))
            g.emit(op)
            g.events.append((op["m"], "post:late", tuple(sorted(tags))))
    # ---- fault: the caller edits one restored polyhedron in place, then unpacks the same string again
    rpolys = [(h, key) for h in restored for key, src, kind in keys if kind == "poly" and g.handles[h].get("src") == src]
    if rpolys and rng.random() < 0.5:
        h, key = rng.choice(rpolys)
        src = g.handles[h]["src"]
        g.emit({"op": "call", "h": h, "m": "mutate", "a": {"how": rng.choice(["cell", "dpv"])}})
        g.fault("caller-edits-restored-copy")
        h2 = g.fresh("r")
        g.emit({"op": "restore", "key": key, "h": h2, "src": src, "kind": "poly"}, {"base": src, "src": src})
        g.events.append(("mutate+restore", "poly:" + mode, ()))
        if h2 in g.handles:
            g.emit({"op": "call", "h": h2, "m": "dump"})
    meta = {"profile": p, "fired": g.fired, "events": g.events, "skipped": g.skipped, "hits": g.hits, "mode": mode,
            "restored": len(restored)}
    return g.ops, g.refs, meta


def _root_info(g, h):
    seen = 0
    hh = h
    while hh in g.handles and seen < 10:
        if g.handles[hh].get("fake_info"):
            return g.handles[hh]["fake_info"], hh
        hh = g.handles[hh].get("base")
        seen += 1
    seen = 0
    while h in g.handles and g.handles[h].get("info") is None and seen < 10:
        h = g.handles[h].get("base")
        seen += 1
    return g.handles.get(h, {}).get("info"), h


def poly_op(g, h):
    rng = g.rng
    m = rng.choice(POLY_OPS)
    op = {"op": "call", "h": h, "m": m}
    inf, root = _root_info(g, h)
    if m == "select" and inf is not None:
        # borrow ids / box from the configurator the polyhedron came from
        g.handles[h]["info"] = inf
        try:
            spec = g.solver_spec(h, allow_builtin=rng.random() < 0.3)
            npr = rng.choice([1, 1, 2, 3])
            op["a"] = {"prios": [g.weights(h, allow_zero=False) for _ in range(npr)], "solver": spec}
            g._consume(op)
        finally:
            g.handles[h]["info"] = None
    elif m == "select":
        op["m"] = "dump"
    if op["m"] == "poly_b64_rt":
        op["out"] = g.fresh("p")
    return op, []


class C17:
    id = "C17"

    @staticmethod
    def generate(rng, index, tier, mask, cache):
        oracle = lambda ops, k: engine.reference(ops, k, mask, cache)
        ops, refs, meta = gen_c17(rng, oracle, index, tier)
        meta["raw_iii"] = bool(mask) and index % 3 == 0
        return {"ops": ops, "refs": refs, "meta": meta}

    @staticmethod
    def check(case, mask, cache):
        ops = case["ops"]
        primary = run_primary(ops, mask)
        replica = run_replica(ops, mask)
        div = lockstep(ops, primary, replica)
        hits = {}
        if div is None and case["meta"].get("raw_iii"):
            div = raw_restore_check(ops, hits)
            hits["c17:restore==packed also without neutralisers"] = 1
        return {"divergence": div, "sut": replica, "checked": len(ops), "hits": hits}

    @staticmethod
    def check_raw(case, cache):
        return None

    @staticmethod
    def recheck(ops, mask, cache):
        d = lockstep(ops, run_primary(ops, mask), run_replica(ops, mask))
        if d is None and mask:
            d = raw_restore_check(ops)
        return d

    @staticmethod
    def signature(meta):
        return (meta.get("mode"),) + gen.signature(meta)

    @staticmethod
    def nontrivial(meta):
        ev = meta["events"]
        for i, e in enumerate(ev):
            if e[0] == "restore" and i + 1 < len(ev):
                return True
        return False
