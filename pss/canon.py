"""Canonical (JSON-able) forms of puan values.  Runs inside worker processes only.

Only *public* state is dumped (DESIGN §2.5): private memo attributes a refactor might add
are ignored on purpose; dict order, numpy-vs-int, pickle layout do not matter.
"""
import math
import re

import numpy as np
import puan
import puan.logic.plog as pg
import puan.modules.configurator as cc
import puan.ndarray as pnd

_ADDR = re.compile(r"0x[0-9a-fA-F]+")


def _i(x):
    """normalise numbers to plain python (ints stay ints, floats become repr-stable)."""
    if isinstance(x, (bool, np.bool_)):
        return bool(x)
    if isinstance(x, (int, np.integer)):
        return int(x)
    if isinstance(x, (float, np.floating)):
        x = float(x)
        if math.isnan(x):
            return "nan"
        if math.isinf(x):
            return "inf" if x > 0 else "-inf"
        if x == int(x) and abs(x) < 2 ** 53:
            return ["f", int(x)]
        return ["f", repr(x)]
    return x


def clsname(o):
    c = type(o)
    mod = c.__module__
    short = {"puan.logic.plog": "pg", "puan.modules.configurator": "cc", "puan": "puan",
             "puan.ndarray": "pnd", "numpy": "np", "builtins": ""}.get(mod, mod)
    return (short + "." if short else "") + c.__name__


def dump_bounds(b):
    try:
        return [_i(b.lower), _i(b.upper)]
    except Exception:
        return ["?bounds", repr(b)]


def dump_prop(p, depth=0):
    """Deep dump of the public state of a proposition / variable."""
    if depth > 40:
        return ["too-deep"]
    if isinstance(p, puan.variable):
        return {"k": "var", "cls": clsname(p), "id": _i(p.id) if not isinstance(p.id, str) else p.id,
                "b": dump_bounds(p.bounds)}
    if isinstance(p, pg.AtLeast):
        d = {"k": "cmp", "cls": clsname(p), "id": p.variable.id, "gen": bool(p.generated_id),
             "sign": _i(int(p.sign)), "value": _i(p.value), "b": dump_bounds(p.variable.bounds),
             "vcls": clsname(p.variable),
             "ch": [dump_prop(c, depth + 1) for c in p.propositions]}
        if hasattr(p, "prio"):
            d["prio"] = _i(p.prio)
        if hasattr(p, "default"):
            d["default"] = [dump_prop(x, depth + 1) if isinstance(x, (puan.variable, pg.AtLeast)) else canon(x)
                            for x in (p.default or [])]
        if isinstance(p, pg.Imply):
            d["cond"] = dump_prop(p.condition, depth + 1) if hasattr(p, "condition") else None
            d["cons"] = dump_prop(p.consequence, depth + 1) if hasattr(p, "consequence") else None
        return d
    return ["?prop", clsname(p), repr(p)]


def dump_var_entry(v):
    """entry of polyhedron.variables / index: id, bounds, kind"""
    if isinstance(v, puan.variable):
        return [v.id if isinstance(v.id, str) else _i(v.id), dump_bounds(v.bounds), "var"]
    if isinstance(v, pg.AtLeast):
        return [v.id, dump_bounds(v.bounds), "cmp", bool(v.generated_id)]
    return ["?", canon(v)]


def dump_ndarray(a):
    a = np.asarray(a)
    return ["nd", a.dtype.kind + (str(a.dtype.itemsize) if a.dtype.kind in "iuf" else ""), list(a.shape), _tolist(a)]


def _tolist(a):
    if a.dtype == object:
        return [canon(x) for x in a.ravel().tolist()]
    flat = a.ravel().tolist()
    return [_i(x) for x in flat]


def dump_poly(p):
    d = {"k": "poly", "cls": clsname(p), "dt": p.dtype.kind + str(p.dtype.itemsize), "shape": list(p.shape),
         "m": _tolist(np.asarray(p)),
         "vars": [dump_var_entry(v) for v in np.asarray(p.variables, dtype=object).ravel().tolist()]
         if getattr(p, "variables", None) is not None else None,
         "index": [dump_var_entry(v) for v in np.asarray(p.index, dtype=object).ravel().tolist()]
         if getattr(p, "index", None) is not None else None}
    if isinstance(p, pnd.ge_polyhedron_config):
        dpv = getattr(p, "default_prio_vector", None)
        d["dpv"] = None if dpv is None else dump_ndarray(dpv)
    return d


def canon_exc(e):
    msg = _ADDR.sub("0x?", str(e))
    if len(msg) > 400:
        msg = msg[:400] + "..."
    return ["exc", type(e).__name__, msg]


def canon(v, depth=0):
    if depth > 60:
        return ["too-deep"]
    if v is None or isinstance(v, str):
        return v
    if isinstance(v, (bool, np.bool_, int, np.integer, float, np.floating)):
        return _i(v)
    if isinstance(v, puan.Bounds):
        return ["B", _i(v.lower), _i(v.upper)]
    if isinstance(v, (puan.variable, pg.AtLeast)):
        return dump_prop(v)
    if isinstance(v, pnd.variable_ndarray):
        return dump_poly(v)
    if isinstance(v, np.ndarray):
        return dump_ndarray(v)
    if isinstance(v, dict):
        items = [[canon(k, depth + 1), canon(x, depth + 1)] for k, x in v.items()]
        items.sort(key=lambda kv: _sortkey(kv[0]))
        return ["dict", items]
    if isinstance(v, tuple):
        return ["tup"] + [canon(x, depth + 1) for x in v]
    if isinstance(v, (list,)):
        return ["list"] + [canon(x, depth + 1) for x in v]
    if isinstance(v, (set, frozenset)):
        xs = [canon(x, depth + 1) for x in v]
        xs.sort(key=_sortkey)
        return ["set"] + xs
    if isinstance(v, BaseException):
        return canon_exc(v)
    import enum
    if isinstance(v, enum.Enum):
        return ["enum", type(v).__name__, v.name]
    if isinstance(v, np.dtype):
        return ["dtype", v.kind, v.itemsize]
    if isinstance(v, type):
        return ["type", v.__name__]
    return ["?", clsname(v), _ADDR.sub("0x?", repr(v))[:200]]


def _sortkey(x):
    import json
    return json.dumps(x, sort_keys=True, default=str)
