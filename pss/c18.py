"""C18 – extending a configurator equals building it with the extra rule (DESIGN §4 C18).

History simulation over *trees of additions*.  The reference for every op on a version obtained
through add() is the same op on a configurator **constructed directly** from the old rules plus
the new one (`StingyConfigurator(*rules, r, id=c.id)`) in a process with no past.
"""
import copy

from . import engine, gen, procs
from . import model as M
from . import recipes as R

QUERIES = ["default_prios", "ge_polyhedron", "leafs", "to_json", "json_dumps", "flatten", "variables", "to_text",
           "errors", "id", "to_short", "equation_bounds", "to_b64", "__repr__"]


# ----------------------------------------------------------------------------- annotate (pure function of ops)

def annotate(ops, mask, cache):
    """direct recipes and expectations for every add op; rewritten program P' (adds -> direct news)."""
    direct = {}      # handle -> direct Stingy recipe
    expect = {}      # op index -> "raise" | "ok" | "ungated"
    prog = []        # rewritten program
    for k, op in enumerate(ops):
        if op["op"] == "new" and op["recipe"][0] == "Stingy" and not R.refs(op["recipe"]):
            direct[op["h"]] = op["recipe"]
        if op["op"] == "call" and op["m"] == "add" and op.get("out"):
            base = direct.get(op["h"])
            rule = op["a"]["recipe"]
            if base is None or R.refs(rule):
                expect[k] = "ungated"
                prog.append({"op": "new", "h": op["out"], "recipe": ["str", "__ungated__"]})
                continue
            # pristine facts about base and rule (both from recipes, no history)
            bdump = engine.reference([{"op": "new", "h": "b", "recipe": base}], 0, mask, cache).get("obj")
            rdump = engine.reference([{"op": "new", "h": "r", "recipe": rule}], 0, mask, cache).get("obj")
            if not isinstance(bdump, dict) or not isinstance(rdump, dict) or "id" not in rdump:
                expect[k] = "ungated"
                prog.append({"op": "new", "h": op["out"], "recipe": ["str", "__ungated__"]})
                continue
            rid = rdump["id"]
            top_ids = [c["id"] for c in bdump["ch"]]
            binf = M.info(bdump)
            all_ids = set(binf["leaves"]) | set(binf["comps"])
            d = ["Stingy", R.children(base) + [rule], bdump["id"]]
            if rid in top_ids:
                expect[k] = "raise"
                prog.append({"op": "new", "h": op["out"], "recipe": ["str", "__refused__"]})
                continue
            ddump = engine.reference([{"op": "new", "h": "d", "recipe": d}], 0, mask, cache).get("obj")
            if rid == bdump["id"] or not isinstance(ddump, dict) or M.validate(ddump):
                # the directly constructed result is not well-defined (e.g. the id names a nested node with
                # another definition, or the configurator itself): the property promises neither acceptance
                # nor refusal; not gated and never used again.  (A rule that merely *shares* an identical nested
                # sub-proposition gives a well-defined model and is gated like any other.)
                expect[k] = "ungated"
                prog.append({"op": "new", "h": op["out"], "recipe": ["str", "__ungated__"]})
                continue
            expect[k] = "ok"
            direct[op["out"]] = d
            prog.append({"op": "new", "h": op["out"], "recipe": d})
            continue
        prog.append(op)
    return prog, expect, direct


def references(ops, mask, cache):
    prog, expect, direct = annotate(ops, mask, cache)
    cr = engine.creators(ops)
    dead = {ops[k]["out"] for k, e in expect.items() if e != "ok"}
    refs = []
    for k, op in enumerate(ops):
        if op["op"] == "audit":
            refs.append(None)
        elif k in expect and expect[k] == "raise":
            refs.append({"must_raise": True})
        elif k in expect and expect[k] == "ungated":
            refs.append(None)
        elif any(n in dead for n in engine.op_reads(op)):
            refs.append(None)   # op on an ungated / refused version: not gated
        else:
            refs.append(engine.reference(prog, k, mask, cache))
    return refs, expect


def compare(ops, sut, refs):
    res = sut["results"]
    refs = list(refs)
    for k, r in enumerate(refs):
        if isinstance(r, dict) and r.get("must_raise"):
            if k < len(res) and "exc" in res[k]:
                refs[k] = None      # refused, as required; nothing else to compare
            else:
                return {"kind": "c18-accepted", "at": k, "op": ops[k],
                        "why": "add() accepted a rule whose id names an existing top-level rule/item",
                        "sut": engine.strip(res[k]) if k < len(res) else None, "ref": "must raise"}
        elif r is None and k < len(res) and ops[k]["op"] != "audit" and "operr" in res[k]:
            pass
    return engine.first_divergence(ops, sut, refs)


# ----------------------------------------------------------------------------- generation

def cicje_rule(g):
    return g.cicje()


def rule_for(g, h, used):
    rng = g.rng
    inf = g.handles[h]["info"]
    leaves = sorted(g.leafb)
    top_ids = [c["id"] for c in g.handles[h]["dump"]["ch"]]
    r = rng.random()
    if r < 0.12 and top_ids:
        # collide with an existing top-level rule / item id -> must be refused
        i = rng.choice(sorted(map(str, top_ids)))
        if rng.random() < 0.5:
            return ["All", [g.leaf(rng.choice(leaves))], i]
        return ["var", i, 0, 1]
    if r < 0.18 and inf["comps"]:
        # collide with some (maybe nested) id -> ungated unless top-level
        return ["Any", [g.leaf(rng.choice(leaves))], rng.choice(sorted(inf["comps"]))]
    if r < 0.26:
        i = rng.choice(leaves)
        lo, hi = g.leafb[i]
        return ["var", i, lo, hi]
    if r < 0.36:
        c = cicje_rule(g)
        if c:
            return c
    if r < 0.46:
        c = g.complement_rule(h, used)
        if c:
            return c
    if r < 0.50:
        # a whole (id-less or named) configurator handed in as a rule: it must be nested like any other rule
        inner = [g.compound(1, used, kinds=["All", "Any", "ccAny", "ccXor"], leaves=leaves) for _ in range(rng.randint(1, 2))]
        return ["Stingy", inner, None if rng.random() < 0.7 else g.idspec(used)]
    if r < 0.55:
        return g.compound(1, used, kinds=["ccAny", "ccXor"], leaves=leaves)
    if r < 0.72:
        cond = g.compound(1, used, kinds=["All", "Any"], leaves=leaves)
        cons = g.compound(1, used, kinds=["ccXor", "ccAny", "All", "Any", "AtMost"], leaves=leaves)
        return ["Imply", cond, cons, g.idspec(used)]
    return g.compound(rng.choice([1, 1, 2]), used, kinds=["All", "Any", "AtMost", "AtLeast", "Xor", "XNor", "Not", "Imply"],
                      leaves=leaves)


def gen_c18(rng, oracle_factory, index, tier="quick"):
    p = gen.make_profile(rng, tier)
    p["prefix_const_prob"] = 0
    p["compound_key_prob"] = 0.0      # leaf-only interpretations: C09's recorded finding cannot be the cause
    p["cfg_prob"] = 1.0
    p["nleaves"] = rng.choice([4, 5, 6, 8])
    p["bounds_family"] = rng.choice(["small", "twin", "degenerate"])
    p["int_leaf_prob"] = rng.choice([0, 0, 0.15, 0.3])
    p["fault"]["abort-arg"] = False
    p["fault"]["abort-callback"] = False
    state = {"ops": None}
    g = gen.Gen(rng, p, None, max_box=1 << 13)
    g.oracle = oracle_factory(g)
    if rng.random() < 0.08:
        # a builder-style start: a configurator without any rule yet
        base = g.fresh()
        g.emit({"op": "new", "h": base, "recipe": ["Stingy", [], rng.choice(["main", "M", None])]})
        if base not in g.handles:
            base = g.new_model(want_cfg=True)
        else:
            g.hit("c18:empty-configurator-as-base")
    else:
        base = g.new_model(want_cfg=True)
    versions = [base]
    depth = {base: 0}
    nadds = rng.randint(2, 7 if tier == "quick" else 12)
    nq = 0
    guard = 0
    while (nadds > 0 or nq < 4) and guard < 120:
        guard += 1
        if g.step_iterators():
            continue
        r = rng.random()
        if nadds > 0 and r < 0.45:
            # extend some version (chains up to 5, branches from any version)
            cands = [v for v in versions if depth[v] < 5]
            if not cands:
                nadds = 0
                continue
            v = cands[-1] if rng.random() < 0.6 else rng.choice(cands)
            used = set(g.handles[v]["info"]["comps"]) | {g.handles[v]["info"]["top"]}
            rule = rule_for(g, v, used)
            out = g.fresh()
            op = {"op": "call", "h": v, "m": "add", "a": {"recipe": rule}, "out": out}
            before = len(g.ops)
            ref = g.emit(op, {"base": v})
            nadds -= 1
            if len(g.ops) > before:
                ok = isinstance(ref, dict) and "obj" in ref and out in g.handles and g.handles[out]["kind"] == "cfg"
                g.events.append(("add", "v%d" % depth[v], ("accepted" if ok else ("refused" if isinstance(ref, dict) and ref.get("must_raise") else "ungated"),)))
                if ok:
                    versions.append(out)
                    depth[out] = depth[v] + 1
                    if g.recipe_of(v) is not None:
                        g.handles[out]["recipe"] = ["Stingy", R.children(g.recipe_of(v)) + [rule], g.handles[v]["dump"]["id"]]
                # immediately re-observe the original (must be unchanged)
                if rng.random() < 0.7:
                    qop, tags = g.op_for(v, rng.choice(["default_prios", "ge_polyhedron", "to_json", "flatten", "evaluate", "select"]))
                    g.emit(qop)
                    g.events.append((qop["m"], "orig-after-add", ()))
            continue
        v = rng.choice(versions) if rng.random() < 0.5 else versions[-1]
        rr = rng.random()
        if rr < 0.45:
            m = rng.choice(QUERIES)
        elif rr < 0.65:
            m = "evaluate"
        elif rr < 0.9:
            m = "select"
        else:
            m = rng.choice(["solve", "to_ge_polyhedron", "evaluate_propositions"])
        op, tags = g.op_for(v, m)
        before = len(g.ops)
        g.emit(op)
        if len(g.ops) > before:
            g.events.append((op["m"], "v%d" % depth.get(v, 9), tuple(sorted(tags))))
            nq += 1
        if rng.random() < 0.1:
            g.emit({"op": "audit"})
    for it in sorted(g.its):
        if rng.random() < 0.6:
            g.emit({"op": "drain", "it": it})
    meta = {"profile": p, "fired": g.fired, "events": g.events, "skipped": g.skipped, "hits": g.hits,
            "versions": len(versions), "max_depth": max(depth.values())}
    return g.ops, meta


class C18:
    id = "C18"

    @staticmethod
    def generate(rng, index, tier, mask, cache):
        def oracle_factory(g):
            def oracle(ops, k):
                # reference of the op just appended, against direct construction
                refs, expect = references(ops, mask, cache) if ops[k]["op"] == "call" and ops[k]["m"] == "add" else (None, None)
                if refs is not None:
                    r = refs[k]
                    if expect.get(k) == "ungated":
                        return {"ungated": True}
                    return r
                prog, expect, _ = annotate(ops, mask, cache)
                dead = {ops[j]["out"] for j, e in expect.items() if e != "ok"}
                if any(n in dead for n in engine.op_reads(ops[k])):
                    return {"ungated": True}
                return engine.reference(prog, k, mask, cache)
            return oracle
        ops, meta = gen_c18(rng, oracle_factory, index, tier)
        refs, expect = references(ops, mask, cache)
        meta["expect"] = {"raise": sum(1 for e in expect.values() if e == "raise"),
                          "ok": sum(1 for e in expect.values() if e == "ok"),
                          "ungated": sum(1 for e in expect.values() if e == "ungated")}
        return {"ops": ops, "refs": refs, "meta": meta}

    @staticmethod
    def check(case, mask, cache):
        sut = procs.run_child(engine.child_all, (case["ops"],), shims=mask)
        div = compare(case["ops"], sut, case["refs"])
        return {"divergence": div, "sut": sut, "checked": len(case["ops"])}

    @staticmethod
    def check_raw(case, cache):
        return None

    @staticmethod
    def recheck(ops, mask, cache):
        refs, _ = references(ops, mask, cache)
        sut = procs.run_child(engine.child_all, (ops,), shims=mask)
        return compare(ops, sut, refs)

    @staticmethod
    def signature(meta):
        return gen.signature(meta)

    @staticmethod
    def nontrivial(meta):
        ev = meta["events"]
        # an accepted or refused addition followed by an observation of the new or the original version
        for i, e in enumerate(ev):
            if e[0] == "add" and e[2] and e[2][0] in ("accepted", "refused") and i + 1 < len(ev):
                return True
        return False
