"""Minimisation of a failing program while the same violation class persists (DESIGN §2.6)."""
import copy

from . import engine
from . import recipes as R

MAX_EVALS = 400


def classify(div):
    if div is None:
        return None
    import re
    base = (div["kind"], (div.get("op") or {}).get("m") or (div.get("op") or {}).get("op") or div["kind"])
    if div.get("why"):
        base = base + (re.sub(r"[0-9]+", "N", div["why"]),)
    return base


def _remove(ops, idxs):
    """remove ops idxs plus everything that (transitively) reads a name they write"""
    gone = set(idxs)
    changed = True
    while changed:
        changed = False
        dead_names = set()
        for i in gone:
            dead_names.update(engine.op_writes(ops[i]))
        for j, op in enumerate(ops):
            if j in gone:
                continue
            reads = engine.op_reads(op)
            for n in reads:
                if n in dead_names:
                    # is there another, earlier, surviving writer?
                    ok = any(n in engine.op_writes(ops[i]) for i in range(j) if i not in gone)
                    if not ok:
                        gone.add(j)
                        changed = True
                        break
    return [op for i, op in enumerate(ops) if i not in gone]


class _Budget:
    def __init__(self, n):
        self.n = n


MAX_WALL = 240.0


def minimise(spec, case, div, mask, cache, max_evals=MAX_EVALS, max_wall=MAX_WALL):
    import time
    t_end = time.time() + max_wall
    target = classify(div)
    budget = _Budget(max_evals)
    ops = copy.deepcopy(case["ops"])
    best_div = div

    def fails(cand):
        nonlocal best_div
        if budget.n <= 0 or time.time() > t_end:
            budget.n = 0
            return False
        budget.n -= 1
        try:
            d = spec.recheck(cand, mask, cache)
        except Exception:
            return False
        if d is not None and classify(d) == target:
            best_div = d
            return True
        return False

    # 0. truncate after the diverging op
    at = div.get("at")
    if isinstance(at, int) and at + 1 < len(ops):
        cand = ops[:at + 1]
        if fails(cand):
            ops = cand
    # 1. chunked removal then singles
    n = 2
    while len(ops) > 1 and budget.n > 0:
        size = max(1, len(ops) // n)
        removed_any = False
        i = 0
        while i < len(ops) and budget.n > 0:
            idxs = list(range(i, min(len(ops), i + size)))
            cand = _remove(ops, idxs)
            if len(cand) < len(ops) and cand and fails(cand):
                ops = cand
                removed_any = True
            else:
                i += size
        if size == 1 and not removed_any:
            break
        if not removed_any:
            n = min(len(ops), n * 2)
    # 2. recipe shrinking
    progress = True
    while progress and budget.n > 0:
        progress = False
        for k, op in enumerate(ops):
            for cand_op in _op_variants(op):
                cand = ops[:k] + [cand_op] + ops[k + 1:]
                if fails(cand):
                    ops = cand
                    progress = True
                    break
            if progress:
                break
    # 3. paired structural shrinking of near-twins / same-shaped models (keeps them twins)
    progress = True
    while progress and budget.n > 0:
        progress = False
        news = [k for k, op in enumerate(ops) if op["op"] == "new"]
        for i in range(len(news)):
            for j in range(i + 1, len(news)):
                a, b = ops[news[i]]["recipe"], ops[news[j]]["recipe"]
                if _shape(a) != _shape(b):
                    continue
                for va, vb in zip(_structural_variants(a), _structural_variants(b)):
                    if va[0] in ("var", "str", "subvar", "ref") or vb[0] in ("var", "str", "subvar", "ref"):
                        continue
                    cand = list(ops)
                    cand[news[i]] = dict(ops[news[i]], recipe=va)
                    cand[news[j]] = dict(ops[news[j]], recipe=vb)
                    if fails(cand):
                        ops = cand
                        progress = True
                        break
                if progress:
                    break
            if progress:
                break
    return {"ops": ops, "divergence": best_div, "class": list(target), "evals": max_evals - budget.n,
            "original_len": len(case["ops"])}


def _shape(r):
    return (r[0], tuple(_shape(c) for c in R.children(r)))


def _structural_variants(r):
    """edits whose enumeration order depends on the shape only (so two same-shaped recipes can be edited in step)"""
    t = r[0]
    ch = R.children(r)
    if t not in ("Stingy",):
        for c in ch:
            if c[0] != "ref":
                yield c
    if t in R.LIST_CHILD_POS and len(ch) > 1:
        for i in range(len(ch)):
            yield R.with_children(r, ch[:i] + ch[i + 1:])
    for i, c in enumerate(ch):
        for v in _structural_variants(c):
            nch = list(ch)
            nch[i] = v
            yield R.with_children(r, nch)


def _recipe_variants(r):
    t = r[0]
    ch = R.children(r)
    # replace whole compound by one of its children
    if t not in ("Stingy",):
        for c in ch:
            if c[0] != "ref":
                yield c
    # drop one child
    if t in R.LIST_CHILD_POS and len(ch) > 1:
        for i in range(len(ch)):
            yield R.with_children(r, ch[:i] + ch[i + 1:])
    # simplify attributes
    if t == "subvar":
        yield ["var", r[1], r[2], r[3]]
    if t == "var" and (r[2], r[3]) != (0, 1):
        yield ["var", r[1], 0, 1]
    if t == "var" and (r[2], r[3]) == (0, 1):
        yield ["str", r[1]]
    if t in ("ccAny", "ccXor") and r[2] is not None:
        yield [t, r[1], None, r[3]]
    if t == "ccAny" and r[2] is None:
        yield ["Any", r[1], r[3]]
    if t in ("AtLeast",) and r[4] is not None:
        yield [t, r[1], r[2], r[3], None]
    # recurse
    for i, c in enumerate(ch):
        for v in _recipe_variants(c):
            nch = list(ch)
            nch[i] = v
            yield R.with_children(r, nch)


def _op_variants(op):
    if op["op"] == "new":
        for v in _recipe_variants(op["recipe"]):
            if v[0] in ("var", "str", "subvar", "ref"):
                continue   # a model handle must stay a compound proposition
            o = dict(op)
            o["recipe"] = v
            yield o
        return
    if op["op"] != "call":
        return
    a = op.get("a") or {}
    if "i" in a:
        items = a["i"]
        for i in range(len(items)):
            o = copy.deepcopy(op)
            del o["a"]["i"][i]
            yield o
        for i, (k, v) in enumerate(items):
            if isinstance(v, list) and v[0] in ("t", "B") and v[1] == v[2]:
                o = copy.deepcopy(op)
                o["a"]["i"][i][1] = v[1]
                yield o
        if a.get("out") is not None:
            o = copy.deepcopy(op)
            o["a"]["out"] = None
            yield o
    if "recipe" in a:
        for v in _recipe_variants(a["recipe"]):
            o = copy.deepcopy(op)
            o["a"]["recipe"] = v
            yield o
    for key in ("objs", "prios"):
        if key in a:
            lst = a[key]
            if len(lst) > 1:
                for i in range(len(lst)):
                    o = copy.deepcopy(op)
                    del o["a"][key][i]
                    yield o
            for i, d in enumerate(lst):
                for j in range(len(d)):
                    o = copy.deepcopy(op)
                    del o["a"][key][i][j]
                    yield o
    if isinstance(a.get("solver"), dict):
        s = a["solver"]
        for key in ("lazy", "status", "vectype", "none"):
            if key in s:
                o = copy.deepcopy(op)
                del o["a"]["solver"][key]
                yield o
        if s.get("mode") not in ("ones", "raise"):
            o = copy.deepcopy(op)
            o["a"]["solver"]["mode"] = "ones"
            yield o
    for key in ("reduce", "virt", "reduced", "active", "only_leafs"):
        if a.get(key):
            o = copy.deepcopy(op)
            o["a"][key] = False
            yield o
    if op.get("consume") == "defer":
        pass
