"""fork-per-task children of a pristine zygote.  The calling process never runs library code."""
import json
import os
import select
import signal
import sys
import time
import traceback


class HarnessError(Exception):
    pass


class ChildTimeout(HarnessError):
    pass


CHILD_TIMEOUT = float(os.environ.get("PSS_CHILD_TIMEOUT", "60"))
STATS = {"forks": 0}


def _child_main(w, fn, args, shims):
    try:
        signal.alarm(int(_scaled(args, None)) + 30)
        if shims:
            from . import shims as S
            S.apply(shims)
        out = fn(*args)
        data = json.dumps(["ok", out], separators=(",", ":"))
    except BaseException as e:  # noqa
        data = json.dumps(["harness", type(e).__name__, "".join(traceback.format_exception_only(type(e), e))[-800:],
                           traceback.format_exc()[-3000:]])
    b = data.encode()
    off = 0
    while off < len(b):
        off += os.write(w, b[off:off + 65536])
    os.close(w)


def _scaled(args, timeout):
    """default wall limit of a child: CHILD_TIMEOUT, plus 0.3 s per op of the program it is handed (soak sessions
    under a loaded machine), unless an explicit limit is given"""
    if timeout is not None:
        return timeout
    n = 0
    for a in args:
        if isinstance(a, list) and a and isinstance(a[0], dict) and "op" in a[0]:
            n = max(n, len(a))
    return CHILD_TIMEOUT + 0.3 * n


def run_child(fn, args=(), shims=(), timeout=None):
    """run fn(*args) in a forked child, return its JSON-able result"""
    timeout = _scaled(args, timeout)
    r, w = os.pipe()
    sys.stdout.flush()
    sys.stderr.flush()
    STATS["forks"] += 1
    pid = os.fork()
    if pid == 0:
        code = 0
        try:
            os.close(r)
            if not os.environ.get("PSS_DEBUG"):
                dn = os.open(os.devnull, os.O_WRONLY)
                os.dup2(dn, 2)  # rust panics print through the panic hook; results travel through the pipe
            _child_main(w, fn, args, shims)
        except BaseException:
            code = 3
        finally:
            os._exit(code)
    os.close(w)
    chunks = []
    deadline = time.monotonic() + timeout
    try:
        while True:
            left = deadline - time.monotonic()
            if left <= 0:
                os.kill(pid, signal.SIGKILL)
                os.waitpid(pid, 0)
                raise ChildTimeout(f"child timed out after {timeout}s in {getattr(fn, '__name__', fn)}")
            rl, _, _ = select.select([r], [], [], min(left, 5.0))
            if not rl:
                continue
            c = os.read(r, 1 << 20)
            if not c:
                break
            chunks.append(c)
    finally:
        os.close(r)
    _, st = os.waitpid(pid, 0)
    raw = b"".join(chunks)
    if not raw:
        raise HarnessError(f"child died without a result (status {st})")
    try:
        msg = json.loads(raw)
    except Exception as e:
        raise HarnessError(f"child returned garbage: {e}")
    if msg[0] != "ok":
        raise HarnessError(f"child failed: {msg[1]}: {msg[2]}\n{msg[3] if len(msg) > 3 else ''}")
    return msg[1]


# ----------------------------------------------------------------------------- second interpreter

class AltZygote:
    """A second pristine interpreter exec'ed under another PYTHONHASHSEED.  It only forks:
    each request is served by run_child() inside it, i.e. by a grandchild with no past."""

    def __init__(self, hashseed):
        import subprocess
        env = dict(os.environ)
        env["PYTHONHASHSEED"] = str(hashseed)
        env["RUST_BACKTRACE"] = "0"
        here = os.path.dirname(os.path.dirname(os.path.abspath(__file__)))
        self.p = subprocess.Popen([sys.executable, "-W", "ignore::SyntaxWarning", os.path.join(here, "run.py"), "zygote"],
                                  stdin=subprocess.PIPE, stdout=subprocess.PIPE, env=env, text=True, bufsize=1)
        self.hashseed = hashseed

    def call(self, fn_name, args, shims=(), timeout=None):
        timeout = _scaled(args, timeout)
        req = json.dumps({"fn": fn_name, "args": args, "shims": list(shims), "timeout": timeout})
        try:
            self.p.stdin.write(req + "\n")
            self.p.stdin.flush()
        except Exception as e:
            raise HarnessError(f"alt zygote is gone: {e}")
        rl, _, _ = select.select([self.p.stdout], [], [], timeout + 15)
        if not rl:
            self.close()
            raise ChildTimeout("alt zygote did not answer in time")
        line = self.p.stdout.readline()
        if not line:
            raise HarnessError("alt zygote closed its pipe")
        msg = json.loads(line)
        if msg[0] != "ok":
            if str(msg[1]).startswith("ChildTimeout"):
                raise ChildTimeout(f"alt zygote: {msg[1]}")
            raise HarnessError(f"alt zygote: {msg[1]}")
        return msg[1]

    def close(self):
        try:
            self.p.kill()
            self.p.wait(timeout=5)
        except Exception:
            pass


_ALT = {}


def alt_zygote(hashseed):
    z = _ALT.get(hashseed)
    if z is None or z.p.poll() is not None:
        z = _ALT[hashseed] = AltZygote(hashseed)
    return z


def zygote_main():
    """serve requests on stdin/stdout; never runs library code itself"""
    from . import engine
    table = {"child_all": engine.child_all, "child_last": engine.child_last}
    import pss.worker  # noqa – import the library, do nothing else
    for line in sys.stdin:
        line = line.strip()
        if not line:
            continue
        try:
            req = json.loads(line)
            fn = table[req["fn"]]
            a = req["args"]
            if req["fn"] == "child_all":
                res = run_child(_child_all_kw, (a[0], a[1]), shims=req.get("shims", ()), timeout=req.get("timeout"))
            else:
                res = run_child(fn, tuple(a), shims=req.get("shims", ()), timeout=req.get("timeout"))
            out = ["ok", res]
        except Exception as e:  # noqa
            out = ["err", f"{type(e).__name__}: {e}"[-1500:]]
        sys.stdout.write(json.dumps(out, separators=(",", ":")) + "\n")
        sys.stdout.flush()


def _child_all_kw(ops, kw):
    from . import engine
    return engine.child_all(ops, **kw)
