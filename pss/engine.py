"""Program analysis (dependency slices), pristine-process oracle, SUT execution, comparison.

Nothing here calls the library: it only forks children (procs.run_child) that do.
"""
import hashlib
import json
import os

from . import procs
from . import worker
from . import recipes as R


# ----------------------------------------------------------------------------- program analysis

def recipe_refs(r):
    return R.refs(r)


def op_reads(op):
    """names (object handles / iterator handles / store keys) an op reads"""
    k = op["op"]
    if k == "new":
        return list(dict.fromkeys(recipe_refs(op["recipe"])))
    if k == "call":
        d = [op["h"]]
        a = op.get("a", {})
        if "recipe" in a:
            d += recipe_refs(a["recipe"])
        if "other" in a:
            d.append(a["other"])
        return list(dict.fromkeys(d))
    if k in ("next", "drain", "drop"):
        return [op["it"]]
    if k == "forget":
        return [op["h"]]
    if k == "snapshot":
        return [op["h"]]
    if k == "restore":
        return ["store:" + op["key"]]
    return []


def op_writes(op):
    k = op["op"]
    if k == "new":
        return [op["h"]]
    if k == "call" and op.get("out"):
        return [op["out"]]
    if k == "restore":
        return [op["h"]]
    if k == "snapshot":
        return ["store:" + op["key"]]
    return []


def creators(ops):
    cr = {}
    for i, op in enumerate(ops):
        for n in op_writes(op):
            cr[n] = i  # names are unique by construction; last writer wins for store keys
    return cr


def slice_indices(ops, k, cr=None):
    """indices of the minimal sub-history that defines everything op k reads (DESIGN §2.5, O-pristine):
    creators (transitively) plus earlier consumers of the same lazy iterator."""
    need = set()
    stack = [k]
    while stack:
        j = stack.pop()
        if j in need:
            continue
        need.add(j)
        op = ops[j]
        for n in op_reads(op):
            # creator = last writer of n before j
            c = None
            for i in range(j - 1, -1, -1):
                if n in op_writes(ops[i]):
                    c = i
                    break
            if c is None:
                raise procs.HarnessError(f"op {j} reads undefined name {n}")
            stack.append(c)
        if op["op"] in ("next", "drain", "drop"):
            for i in range(j):
                if ops[i]["op"] in ("next", "drain", "drop") and ops[i]["it"] == op["it"]:
                    stack.append(i)
    return sorted(need)


def strip(res):
    """parts of a result that gate the verdict (raw b64 text is recorded, not compared)"""
    if isinstance(res, dict) and "raw" in res:
        res = {k: v for k, v in res.items() if k != "raw"}
    return res


# ----------------------------------------------------------------------------- children

def _fresh(ops):
    """every execution starts from a freshly parsed copy of its program: equal strings are then distinct objects
    in every process alike (the driver re-uses one str object for an id in many ops, a program shipped to the second
    interpreter arrives JSON-parsed – pickle memoises by identity, so the *text* of to_b64() would otherwise depend
    on how the harness happened to pass its arguments)"""
    if os.environ.get("PSS_NOFRESH"):   # debugging aid: reproduce the identity-sharing artefact
        return ops
    return json.loads(json.dumps(ops))


def child_last(ops):
    """reference child: run a slice in a process with no past, return the last op's result"""
    ops = _fresh(ops)
    try:
        res, _, _ = worker.run_ops(ops)
        return res[-1]
    except worker.OpError as e:
        return {"operr": str(e)}


def child_all(ops, final_audit=True, store=None, stop_on_crash=False, alias_restore=False):
    """SUT child: run the whole program in one process; per-op OpErrors are recorded."""
    ops = _fresh(ops)
    s = worker.Session(store)
    out = []
    stopped = None
    for i, op in enumerate(ops):
        if op["op"] == "crash" and stop_on_crash:
            out.append({"crash": True})
            stopped = i
            break
        try:
            if alias_restore and op["op"] == "restore":
                # primary of a lock-step pair: the "restored" handle is the live original itself
                s.objs[op["h"]] = s.resolve(op["src"])
                from . import canon as _C
                out.append({"obj": _C.canon(s.objs[op["h"]])})
                continue
            out.append(s.exec(op))
        except worker.OpError as e:
            out.append({"operr": str(e)})
    audit = s.audit() if final_audit and stopped is None else None
    return {"results": out, "audit": audit, "store": s.store, "stopped": stopped}


# ----------------------------------------------------------------------------- oracle

class RefCache:
    def __init__(self, limit=20000):
        self.d = {}
        self.limit = limit
        self.hits = 0
        self.misses = 0

    def get(self, key):
        v = self.d.get(key)
        if v is None:
            self.misses += 1
        else:
            self.hits += 1
        return v

    def put(self, key, v):
        if len(self.d) >= self.limit:
            self.d.clear()
        self.d[key] = v


def _key(slice_ops, shims):
    h = hashlib.sha256()
    h.update(json.dumps([slice_ops, list(shims)], sort_keys=True, separators=(",", ":")).encode())
    return h.hexdigest()


BUILTIN_SOLVER_TIMEOUT = 5.0


def uses_builtin_solver(op):
    return op.get("op") == "call" and op.get("m") in ("solve", "select") and (op.get("a") or {}).get("solver") is None


RAW_BUILTIN_TIMEOUT = 10.0


def raw_timeout(ops):
    """wall limit of an execution *without* neutralisers: there the recorded write-back (C09-KF1) may leave a model in a
    state no pristine reference ever vetted, and the library's built-in (beta) solver need not terminate on it (it runs
    inside puan_rspy and cannot be interrupted).  No property speaks about that solver's termination, so such an
    execution gets a short limit and its caller a fallback (see without_builtin_solver)."""
    if any(uses_builtin_solver(o) for o in ops):
        return RAW_BUILTIN_TIMEOUT + 0.3 * len(ops)
    return None


def without_builtin_solver(ops):
    """the same program with every request to the built-in solver served by the scripted peer instead (mode `lower`:
    answers the lower bounds, always terminates) – the shape of every op and iterator is kept"""
    out = []
    for o in ops:
        if uses_builtin_solver(o):
            o = dict(o, a=dict(o.get("a") or {}, solver={"mode": "lower"}))
        out.append(o)
    return out


def reference(ops, k, shims=(), cache=None):
    """O-pristine: what op k returns on freshly built identical objects, in a process with no past."""
    idx = slice_indices(ops, k)
    sl = [ops[i] for i in idx]
    key = _key(sl, shims) if cache is not None else None
    if cache is not None:
        v = cache.get(key)
        if v is not None:
            return v
    tmo = BUILTIN_SOLVER_TIMEOUT if any(uses_builtin_solver(o) for o in sl) else None
    v = procs.run_child(child_last, (sl,), shims=shims, timeout=tmo)
    if cache is not None:
        cache.put(key, v)
    return v


def run_sut(ops, shims=(), **kw):
    return procs.run_child(child_all, (ops,), shims=shims, **kw) if not kw else \
        procs.run_child(lambda: child_all(ops, **kw), (), shims=shims)


# ----------------------------------------------------------------------------- comparison

def first_divergence(ops, sut, refs, raw_text=False):
    """compare SUT results with per-op references; audits against creators' reference dumps.
    returns None or a dict describing the first divergence.  raw_text: also require the *string*
    returned by to_b64() to equal the pristine one (a return value like any other)."""
    d = _first_divergence(ops, sut, refs)
    if raw_text:
        res = sut["results"]
        for k, op in enumerate(ops):
            if d is not None and k >= d["at"]:
                break
            if k < len(res) and isinstance(res[k], dict) and isinstance(refs[k], dict) \
                    and "raw" in res[k] and "raw" in refs[k] and res[k]["raw"] != refs[k]["raw"]:
                import hashlib
                return {"kind": "b64text", "at": k, "op": op,
                        "why": "to_b64() returns a different string than on a freshly built identical object",
                        "sut": {"len": len(res[k]["raw"]), "sha": hashlib.sha256(res[k]["raw"].encode()).hexdigest()[:16]},
                        "ref": {"len": len(refs[k]["raw"]), "sha": hashlib.sha256(refs[k]["raw"].encode()).hexdigest()[:16]}}
    return d


def _aborted(r):
    return isinstance(r, dict) and isinstance(r.get("exc"), list) and r["exc"][1] == "_AsyncAbort"


def _first_divergence(ops, sut, refs):
    cr = creators(ops)
    live = {}
    res = sut["results"]
    for k, op in enumerate(ops):
        if k >= len(res):
            return {"kind": "missing", "at": k}
        r = res[k]
        if op["op"] == "audit":
            d = _audit_div(r.get("audit", {}), live, refs, k)
            if d:
                return d
            continue
        ref = refs[k]
        if ref is None:
            continue
        if op.get("abort_at") and (_aborted(r) or _aborted(ref)):
            # the asynchronous abort landed (in one execution or in both, possibly at different depths: history changes
            # how many lines a call runs, e.g. a warm per-instance cache, so one side may already have talked to the
            # solver): the aborted call's own outcome is not comparable – what it must not do is leave anything
            # behind, and that is what every later op and audit checks
            continue
        if "operr" in r:
            return {"kind": "operr", "at": k, "sut": r, "ref": ref}
        if strip(r) != strip(ref):
            return {"kind": "op", "at": k, "op": op, "sut": strip(r), "ref": strip(ref)}
        if "obj" in ref:
            for n in op_writes(op):
                if not n.startswith("store:"):
                    live[n] = k
        if op["op"] == "crash":
            live = {}
        if op["op"] == "forget":
            live.pop(op["h"], None)
    if sut.get("audit") is not None:
        d = _audit_div(sut["audit"], live, refs, len(ops))
        if d:
            return d
    return None


def _audit_div(audit, live, refs, at):
    for h, k in sorted(live.items()):
        if h not in audit:
            continue
        exp = refs[k]["obj"]
        if audit[h] != exp:
            return {"kind": "audit", "at": at, "handle": h, "created_at": k, "sut": audit[h], "ref": exp}
    return None


def evaluate(ops, shims=(), cache=None, refs=None, raw_text=False):
    """full check of one program: references for every op, one SUT run, comparison."""
    if refs is None:
        refs = []
        for k, op in enumerate(ops):
            if op["op"] in ("audit",):
                refs.append(None)
            else:
                refs.append(reference(ops, k, shims, cache))
    sut = procs.run_child(child_all, (ops,), shims=shims)
    return first_divergence(ops, sut, refs, raw_text), sut, refs
