"""C15 – solver bridge: simulated exchanges with the scripted peer; absolute oracles at the seam.

The peer logs what it is handed and what it answers (inside the SUT process); this module – in the
driver, without calling the library – recomputes what *should* have crossed the seam from
pristine data (pristine polyhedron, pristine default_prios, the recipe's dump) and from the
request itself, assembling everything **by id**.
"""
import numpy as np

from . import engine, gen, procs
from . import model as M
from . import recipes as R
from .peer import BOX_LIMIT

BENIGN = ["errors", "flatten", "variables", "to_json", "to_text", "to_short", "is_tautology", "equation_bounds",
          "atomic_propositions", "compound_propositions", "id", "bounds"]


# ----------------------------------------------------------------------------- generation

def gen_c15(rng, oracle, index, tier="quick"):
    p = gen.make_profile(rng, tier)
    p["prefix_const_prob"] = 0
    p["compound_key_prob"] = 0.0          # leaf-only interpretations: C09's recorded finding cannot be the cause
    p["nleaves"] = rng.choice([3, 4, 5, 6])
    p["depth"] = rng.choice([1, 2, 2])
    p["bounds_family"] = rng.choice(["small", "twin", "neg", "degenerate"])
    p["int_leaf_prob"] = rng.choice([0, 0, 0.2, 0.4])
    p["builtin_solver_prob"] = 0.0
    p["fault"]["abort-arg"] = False
    p["fault"]["abort-callback"] = False
    g = gen.Gen(rng, p, oracle, max_box=1 << 13)
    nmodels = rng.choice([1, 1, 2, 3])
    for _ in range(nmodels):
        g.new_model(want_cfg=rng.random() < 0.55)
    rawpoly = _new_rawpoly(g, rng) if rng.random() < 0.25 else None
    nreq = rng.randint(3, 12 if tier == "quick" else 20)
    done = 0
    guard = 0
    while done < nreq and guard < 200:
        guard += 1
        if g.step_iterators():
            continue
        if rawpoly and rng.random() < 0.3:
            # a request served straight from a hand-built configurator polyhedron (columns in the caller's order)
            op = {"op": "call", "h": rawpoly, "m": "select"}
            g.handles[rawpoly]["info"] = g.handles[rawpoly]["fake_info"]
            try:
                spec = g.solver_spec(rawpoly, allow_builtin=False)
                npr = rng.choice([1, 1, 2, 3])
                op["a"] = {"prios": [g.weights(rawpoly, allow_zero=False) for _ in range(npr)], "solver": spec}
                g._consume(op)
            finally:
                g.handles[rawpoly]["info"] = None
            before = len(g.ops)
            g.emit(op)
            if len(g.ops) > before:
                g.events.append(("select", "rawpoly", _spec_tags(op)))
                g.hit("c15:request-on-hand-built-polyhedron")
            done += 1
            continue
        h = g.pick_target(kinds=("prop", "cfg"))
        kind = g.handles[h]["kind"]
        r = rng.random()
        if r < 0.1 and len(g.order) < 6:
            # derive a new object from a live one after it has (maybe) served requests: the bridge must behave
            # for it exactly as for a constructed one (stale cached polyhedra would be handed to the peer)
            m = "add" if kind == "cfg" and rng.random() < 0.6 else "b64_rt"
            op, tags = g.op_for(h, m)
            before = len(g.ops)
            g.emit(op, {"base": h})
            if len(g.ops) > before:
                g.events.append((m, "derive", ()))
            continue
        if r < 0.3:
            m = rng.choice(BENIGN + (["ge_polyhedron", "default_prios", "leafs"] if kind == "cfg" else []) + ["evaluate"] * 4)
            op, tags = g.op_for(h, m)
        else:
            m = "select" if kind == "cfg" and rng.random() < 0.65 else "solve"
            op, tags = g.op_for(h, m)
            done += 1
        before = len(g.ops)
        g.emit(op)
        if len(g.ops) > before:
            g.events.append((op["m"], gen._rel_tag(g, op["h"], g.order[0]), tuple(sorted(tags)) + _spec_tags(op)))
    for it in sorted(g.its):
        if rng.random() < 0.7:
            g.emit({"op": "drain", "it": it})
            g.events.append(("drain", "it", ()))
    meta = {"profile": p, "fired": g.fired, "events": g.events, "skipped": g.skipped, "hits": g.hits}
    return g.ops, g.refs, meta


RAW_IDS = ["x2", "x10", "x9", "b", "B", "a", "A1", "item", "item2", "item10", "k", "Z"]


def _new_rawpoly(g, rng):
    """ge_polyhedron_config built by hand: every proposition yields id-sorted columns, a caller need not"""
    n = rng.randint(2, 5)
    ids = rng.sample(RAW_IDS, n)            # sampled order = column order (mostly not sorted)
    bnds = {i: rng.choice([(0, 1), (0, 1), (0, 1), (0, 2), (-1, 1)]) for i in ids}
    rows = [[rng.choice([-1, 0, 0, 1])] + [rng.choice([0, 0, 1, 1, -1, 2]) for _ in ids] for _ in range(rng.choice([0, 1, 2, 3]))]
    vs = [[0, 1, 1]] + [[i, bnds[i][0], bnds[i][1]] for i in ids]
    dpv = None if rng.random() < 0.3 else [rng.choice([-1, -1, -2, -3]) for _ in ids]
    ph = g.fresh("p")
    g.emit({"op": "new", "h": ph, "recipe": ["rawpoly", rows, "int64", vs, dpv]})
    if ph not in g.handles:
        return None
    box = 1
    for i in ids:
        box *= bnds[i][1] - bnds[i][0] + 1
    g.handles[ph]["info"] = None
    g.handles[ph]["fake_info"] = {"kind": "poly", "top": None, "leaves": {i: bnds[i] for i in ids}, "comps": {}, "box": box,
                                  "bool": False, "has_default": False, "solver_safe": True}
    g.events.append(("new-rawpoly", "sorted" if ids == sorted(ids) else "unsorted", ()))
    g.hit("c15:hand-built-polyhedron:" + ("sorted-columns" if ids == sorted(ids) else "unsorted-columns"))
    return ph


def _spec_tags(op):
    s = (op.get("a") or {}).get("solver")
    if not isinstance(s, dict):
        return ()
    t = [s.get("mode", "exact")]
    for k in ("none", "lazy", "status", "vectype"):
        if k in s:
            t.append(k)
    if op.get("consume") == "defer":
        t.append("defer")
    if (op.get("a") or {}).get("only_leafs"):
        t.append("only_leafs")
    if (op.get("a") or {}).get("virt"):
        t.append("virt")
    return tuple(t)


# ----------------------------------------------------------------------------- pristine auxiliary data

def _query(ops, k, op, mask, cache):
    """pristine answer to `op` asked right where op k stands (only creators of its handles are in the slice)"""
    tmp = ops[:k] + [op]
    return engine.reference(tmp, k, mask, cache)


def _named(ops, cr, h, depth=0):
    """compound ids the user named for handle h (through constructions, b64 round trips and add()); None = unknown"""
    j = cr.get(h)
    if j is None or depth > 20:
        return None
    op = ops[j]

    def rr(name):
        jj = cr.get(name)
        return ops[jj].get("recipe") if jj is not None and ops[jj]["op"] == "new" else None
    if op["op"] == "new":
        return sorted(R.named_ids(op["recipe"], rr))
    if op["op"] == "call" and op["m"] == "b64_rt":
        return _named(ops, cr, op["h"], depth + 1)
    if op["op"] == "call" and op["m"] == "add":
        base = _named(ops, cr, op["h"], depth + 1)
        if base is None:
            return None
        return sorted(set(base) | R.named_ids(op["a"]["recipe"], rr))
    return None


def aux_for(ops, mask, cache):
    """for every solver request: pristine polyhedron, pristine default_prios, dump of the model"""
    cr = engine.creators(ops)
    aux = {}
    for k, op in enumerate(ops):
        if op["op"] != "call" or op["m"] not in ("solve", "select"):
            continue
        a = op.get("a") or {}
        if a.get("solver") is None:
            continue
        h = op["h"]
        if cr.get(h) is not None and ops[cr[h]]["op"] == "new" and ops[cr[h]]["recipe"][0] == "rawpoly":
            aux[k] = {"dump": None, "flatten": None, "named": None, "rawpoly": True,
                      "poly": _query(ops, k, {"op": "call", "h": h, "m": "dump"}, mask, cache)}
            continue
        dump = _query(ops, k, {"op": "call", "h": h, "m": "flatten"}, mask, cache)
        top = engine.reference(ops, cr[h], mask, cache)
        d = {"dump": top.get("obj"), "flatten": dump.get("v"), "named": _named(ops, cr, h)}
        if op["m"] == "solve":
            d["poly"] = _query(ops, k, {"op": "call", "h": h, "m": "to_ge_polyhedron",
                                        "a": {"active": True, "reduced": bool(a.get("reduce"))}}, mask, cache)
        else:
            d["poly"] = _query(ops, k, {"op": "call", "h": h, "m": "ge_polyhedron"}, mask, cache)
            d["prios"] = _query(ops, k, {"op": "call", "h": h, "m": "default_prios"}, mask, cache)
            d["to_poly"] = _query(ops, k, {"op": "call", "h": h, "m": "to_ge_polyhedron",
                                           "a": {"active": True, "reduced": False}}, mask, cache)
        aux[k] = d
    return aux


# ----------------------------------------------------------------------------- verification

def _fail(k, op, why, got=None, want=None):
    return {"kind": "c15", "at": k, "op": op, "why": why, "sut": got, "ref": want}


def _items_of(ops, res, k):
    """results consumed from request k: (items, complete?)"""
    op = ops[k]
    r = res[k]
    if "exc" in r:
        return None, r
    if op.get("consume") == "defer":
        it = op["out"]
        items = []
        complete = False
        for j in range(k + 1, len(ops)):
            o = ops[j]
            if o["op"] in ("next", "drain") and o["it"] == it and j < len(res):
                rr = res[j]
                if "exc" in rr:
                    return items, rr
                if "item" in rr:
                    items.append(rr["item"])
                if "stop" in rr:
                    complete = True
                if "items" in rr:
                    items += rr["items"]
                    complete = True
        return items, complete
    return r.get("items"), True


def _poly_core(p):
    return {k: p.get(k) for k in ("cls", "dt", "shape", "m", "vars", "index", "dpv")}


def _shadow(rows, mask, cache):
    r = engine.reference([{"op": "util", "fn": "shadow", "rows": rows}], 0, mask, cache)
    if "v" not in r:
        raise procs.HarnessError(f"shadow util failed: {r}")
    return r["v"][3]


def _brute(poly, objective):
    """independent exact optimum over the pristine polyhedron (driver side, numpy only)"""
    shape = poly["shape"]
    mat = np.array(poly["m"], dtype=np.int64).reshape(shape)
    A, b = mat[:, 1:], mat[:, 0]
    bounds = [tuple(v[1]) for v in poly["vars"][1:]]
    size = 1
    for lo, hi in bounds:
        size *= (hi - lo + 1)
    if size > BOX_LIMIT:
        return None
    grids = np.meshgrid(*[np.arange(lo, hi + 1, dtype=np.int64) for lo, hi in bounds], indexing="ij") if bounds else []
    X = np.stack([g.ravel() for g in grids], axis=1) if bounds else np.zeros((1, 0), dtype=np.int64)
    feas = (X @ A.T >= b[None, :]).all(axis=1) if A.shape[0] else np.ones(len(X), dtype=bool)
    if not feas.any():
        return {"feasible": False}
    vals = X @ np.array(objective, dtype=np.int64)
    return {"feasible": True, "max": int(vals[feas].max()), "X": X, "feas": feas, "A": A, "b": b, "bounds": bounds}


def verify(ops, sut, aux, mask, cache, stats=None):
    """absolute C15 oracles over the SUT's recorded exchanges. returns first failure or None"""
    res = sut["results"]
    stats = {} if stats is None else stats

    def st(name, n=1):
        stats[name] = stats.get(name, 0) + n
    faulted = set()   # handles whose peer has already raised / answered None / been abandoned mid-result
    for k, op in enumerate(ops):
        if k not in aux:
            continue
        if k >= len(res):
            return _fail(k, op, "missing result")
        r = res[k]
        a = op["a"]
        spec = a["solver"]
        ax = aux[k]
        if "operr" in r:
            return _fail(k, op, "harness op error", r)
        ppoly = ax["poly"].get("v")
        if ppoly is None:
            # model has no pristine polyhedron (library raises even in a pristine process): nothing to align
            st("c15:request-skipped-no-pristine-polyhedron")
            continue
        st("c15:request-verified:" + op["m"])
        if op["h"] in faulted and spec.get("mode") != "raise" and not spec.get("none"):
            st("c15:healthy-request-after-a-fault-on-the-same-object")
        if spec.get("mode") == "raise" or spec.get("none"):
            faulted.add(op["h"])
        is_select = op["m"] == "select"
        reqs = a["prios"] if is_select else a["objs"]
        seam = r.get("seam") or []
        # ---- the call itself
        if is_select and len(reqs) == 0:
            continue  # select() without priorities: nothing crosses the seam in a defined way
        if len(seam) != 1:
            return _fail(k, op, f"solver called {len(seam)} times for one request", r)
        s = seam[0]
        # ---- (1) polyhedron handed over == the model's asserted polyhedron (pristine)
        if _poly_core(s["poly"]) != _poly_core(ppoly):
            return _fail(k, op, "solver was not handed the model's asserted polyhedron", _poly_core(s["poly"]), _poly_core(ppoly))
        if is_select and ax.get("to_poly", {}).get("v") is not None:
            tp = ax["to_poly"]["v"]
            if (s["poly"]["m"], s["poly"]["vars"]) != (tp["m"], tp["vars"]):
                return _fail(k, op, "configurator polyhedron differs from to_ge_polyhedron(active=True)", s["poly"]["m"], tp["m"])
        col_ids = [v[0] for v in ppoly["vars"][1:]]
        ncol = len(col_ids)
        # ---- (2) one objective per request, aligned by id
        if len(s["objs"]) != len(reqs):
            return _fail(k, op, f"{len(s['objs'])} objectives for {len(reqs)} requests", s["objs"])
        intended = []
        for j, req in enumerate(reqs):
            w = {}
            for i, v in req:
                # the number the library was actually handed (an integral float carries 53 bits)
                w[i] = (int(float(v[1])) if v[0] == "fl" else int(v[1])) if isinstance(v, list) else v
            if is_select and ax.get("rawpoly"):
                row0 = [x[1] if isinstance(x, list) else x for x in ppoly["dpv"][3]]
                row1 = [w.get(i, 0) for i in col_ids]
                try:
                    want = _shadow([row0, row1], mask, cache)
                except procs.HarnessError:
                    intended.append(None)
                    continue
            elif is_select:
                dp = dict((kv[0], kv[1]) for kv in ax["prios"]["v"][1])
                try:
                    row0 = [dp[i] for i in col_ids]
                except KeyError as e:
                    return _fail(k, op, f"column id {e} has no default priority", col_ids)
                if ppoly.get("dpv") is None or ppoly["dpv"][3] != row0:
                    return _fail(k, op, "default_prio_vector is not default_prios by column id", ppoly.get("dpv"), row0)
                row1 = [w.get(i, 0) for i in col_ids]
                try:
                    want = _shadow([row0, row1], mask, cache)
                except procs.HarnessError:
                    want = None   # the compression routine itself rejects this input: C13's business
                    intended.append(None)
                    continue
            else:
                want = [w.get(i, 0) for i in col_ids]
            intended.append(want)
            got = s["objs"][j]
            if list(got[2]) != [ncol] or [int(x) if not isinstance(x, list) else x[1] for x in got[3]] != want:
                return _fail(k, op, f"objective {j} is not the weight of each column's id", got, want)
        # ---- (3) the peer raised at call time
        st("c15:objectives-aligned-by-id", len(reqs))
        if spec.get("mode") == "raise":
            st("c15:peer-raised:" + op["m"])
            if is_select:
                seen = r.get("exc")
                if seen is None and op.get("consume") == "defer":
                    # tolerated: a select() that defers its work may raise at first consumption instead
                    items, complete = _items_of(ops, res, k)
                    if isinstance(complete, dict):
                        seen = complete.get("exc")
                    elif not items and complete is False:
                        continue   # abandoned before consumption: nothing observable
                if not (seen is not None and seen[1] == "InfeasibleError"):
                    return _fail(k, op, "solver exception did not surface as InfeasibleError from select()", seen or r)
            continue
        if "exc" in r and any(t in r["exc"][2] for t in ("box too large", "objective too large", "non-integral objective")):
            st("c15:request-skipped-peer-declined(size)")
            continue   # the scripted peer itself declined (its exact arithmetic would overflow): nothing to judge
        if "exc" in r:
            return _fail(k, op, "request raised although the peer answered", r["exc"])
        # ---- (4) answers reported back by id
        items, complete = _items_of(ops, res, k)
        if isinstance(complete, dict):
            return _fail(k, op, "consuming the result raised", complete)
        answers = s.get("answers") or []
        if complete is True and len(items) != len(answers):
            return _fail(k, op, f"{len(items)} results for {len(answers)} answers", items)
        dump = ax["dump"]
        # ids that occur both as an auto-generated helper and as a user-named node (a rule explicitly named like a
        # generated id and identical to the helper): whether such a column counts as "helper" is undefined
        flags = {}
        for n in M.nodes(dump):
            if n["k"] == "cmp":
                flags.setdefault(n["id"], set()).add(bool(n["gen"]))
        ambiguous = {i for i, f in flags.items() if len(f) > 1}
        nodes = {}
        for n in (ax["flatten"][1:] if ax["flatten"] else []):
            if isinstance(n, dict):
                nodes.setdefault(n["id"], n)
        for j, item in enumerate(items or []):
            vec, z, stc = answers[j]
            st("c15:answer-mapped-back-by-id")
            if vec is None:
                st("c15:none-answer->empty-result")
                exp = {}
            else:
                exp = {}
                for c, i in enumerate(col_ids):
                    n = nodes.get(i)
                    if not is_select and not a.get("virt"):
                        # auto-generated helper = a compound id the recipe did not name (independent of the
                        # library's own generated_id flag)
                        if n is not None and n["k"] == "cmp" and ax["named"] is not None and i not in ax["named"]:
                            continue
                        if n is not None and n["k"] == "cmp" and ax["named"] is None and n["gen"]:
                            continue
                    if is_select and a.get("only_leafs"):
                        if not (n is not None and n["k"] == "var" and n["cls"] == "puan.variable"):
                            continue
                    exp[i] = vec[c]
            is_tuple = isinstance(item, list) and item and item[0] == "tup" and len(item) == 4
            if is_select and a.get("only_leafs"):
                st("c15:only_leafs-filter-checked")
                # today the filtered result is the bare dictionary; a (dict, value, status) tuple would
                # state the same thing – the property only pins *which ids* are kept
                got_d = item[1] if is_tuple else item
            else:
                if not is_tuple:
                    return _fail(k, op, f"result {j} is not a (solution, value, status) tuple", item)
                got_d = item[1]
            if is_tuple:
                got_z, got_st = item[2], item[3]
                # value and status are handed through untouched today; only plain numbers are compared so
                # that a richer status type would not be an alarm
                if (isinstance(got_z, int) and isinstance(z, int) and got_z != z) or \
                        (isinstance(got_st, int) and isinstance(stc, int) and got_st != stc):
                    return _fail(k, op, f"result {j}: objective value / status not passed through", [got_z, got_st], [z, stc])
            if not (isinstance(got_d, list) and got_d[0] == "dict"):
                return _fail(k, op, f"result {j}: solution is not a dictionary", got_d)
            got_map = {}
            for kk, vv in got_d[1]:
                got_map[kk] = vv
            exp_c = {i: _canon_num(v, spec.get("vectype")) for i, v in exp.items()}
            if vec is not None and not is_select and not a.get("virt"):
                for c, i in enumerate(col_ids):
                    if i in ambiguous:
                        if i in got_map:
                            exp_c[i] = _canon_num(vec[c], spec.get("vectype"))
                        else:
                            exp_c.pop(i, None)
            if got_map != exp_c:
                return _fail(k, op, f"result {j}: solution dictionary is not {{column id: value at that column}}", got_d, sorted(exp_c.items()))
            # ---- (5) exact peer: optimal for the intended weights, feasible, satisfies solver-safe models
            if spec.get("mode") == "exact" and vec is not None and j < len(intended) and intended[j] is not None:
                bf = _brute(ppoly, intended[j])
                vec = [_num(x) for x in vec]
                if bf is not None and bf["feasible"]:
                    x = np.array(vec, dtype=np.int64)
                    if not ((bf["A"] @ x >= bf["b"]).all() and all(lo <= xi <= hi for xi, (lo, hi) in zip(vec, bf["bounds"]))):
                        return _fail(k, op, f"result {j}: reported point is not an in-bounds point of the pristine polyhedron", vec)
                    st("c15:exact-answer-feasible+optimal-by-independent-brute-force")
                    val = int(np.array(intended[j], dtype=np.int64) @ x)
                    if val != bf["max"]:
                        return _fail(k, op, f"result {j}: reported point is not optimal for the requested weights", val, bf["max"])
                    inf = M.info(dump)
                    if inf and inf["solver_safe"] and all(c["b"] == (0, 1) for c in inf["comps"].values()) \
                            and not (op["m"] == "solve" and a.get("reduce")):
                        asg = {i: int(vec[c]) for c, i in enumerate(col_ids) if i in inf["leaves"]}
                        if set(asg) == set(inf["leaves"]):
                            top, _ = M.evaluate(dump, asg)
                            st("c15:solver-safe-model-satisfied-by-independent-evaluator")
                            if top != 1:
                                return _fail(k, op, f"result {j}: optimal point of a solver-safe model does not satisfy the model", asg)
            elif vec is None and j < len(answers):
                pass
    return None


def _num(v):
    if isinstance(v, list):
        return int(float(v[1]))
    return int(v)


def _canon_num(v, vectype):
    if isinstance(v, list):
        return v
    if vectype == "float":
        return ["f", int(v)] if float(v) == int(v) else ["f", repr(float(v))]
    return int(v)


# ----------------------------------------------------------------------------- spec

class C15:
    id = "C15"

    @staticmethod
    def generate(rng, index, tier, mask, cache):
        oracle = lambda ops, k: engine.reference(ops, k, mask, cache)
        ops, refs, meta = gen_c15(rng, oracle, index, tier)
        return {"ops": ops, "refs": refs, "meta": meta, "aux": aux_for(ops, mask, cache)}

    @staticmethod
    def check(case, mask, cache):
        sut = procs.run_child(engine.child_all, (case["ops"],), shims=mask)
        stats = {}
        div = verify(case["ops"], sut, case["aux"], mask, cache, stats)
        return {"divergence": div, "sut": sut, "checked": len(case["aux"]), "hits": stats}

    @staticmethod
    def check_raw(case, cache):
        return None

    @staticmethod
    def recheck(ops, mask, cache):
        aux = aux_for(ops, mask, cache)
        sut = procs.run_child(engine.child_all, (ops,), shims=mask)
        return verify(ops, sut, aux, mask, cache)

    @staticmethod
    def signature(meta):
        return gen.signature(meta)

    @staticmethod
    def nontrivial(meta):
        # an exchange with the peer happened (request crossed the seam) – every C15 run has several
        return any(e[0] in ("solve", "select") for e in meta["events"])
