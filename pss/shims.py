"""Harness-side neutralisers for *recorded* known findings (DESIGN §6).

A shim cancels exactly the listed defect and nothing else; it is applied by monkey-patching
inside a forked worker, the repository is not touched.  A check's verdict is taken from the
*masked* execution, so any other way of breaking the property — including a worse variant of a
listed defect — is still reported.
"""
import sys

import puan
import puan.logic.plog as pg


def kf1_assume_writeback():
    """C09-KF1: `AtLeast.assume` assigns `self.variable = puan.variable(id, bounds=given[id])` when its
    own id is named (plog/__init__.py:1373-1377).  The shim undoes that one assignment – and only
    if what was written is what the listed line writes – after the original body has run.
    Results of the call itself are unchanged."""
    orig = pg.AtLeast.assume
    if getattr(orig, "_pss_shim", False):
        return

    def assume(self, new_variable_bounds):
        saved = self.variable
        try:
            named = self.id in new_variable_bounds
        except Exception:
            named = False
        try:
            return orig(self, new_variable_bounds)
        finally:
            # the neutraliser is harness code: the fault injector (abort-async traces library lines, and
            # puan.variable() below is a library call) must not be able to interrupt the restore itself
            tr = sys.gettrace()
            sys.settrace(None)
            try:
                if named and self.variable is not saved:
                    v = self.variable
                    try:
                        expected = puan.variable(id=saved.id, bounds=new_variable_bounds.get(saved.id))
                    except Exception:
                        expected = None
                    if (expected is not None and type(v) is puan.variable and v.id == expected.id
                            and v.bounds.as_tuple() == expected.bounds.as_tuple()):
                        self.variable = saved
            finally:
                sys.settrace(tr)

    assume._pss_shim = True
    assume.__wrapped__ = orig
    pg.AtLeast.assume = assume


SHIMS = {
    "C09-KF1": kf1_assume_writeback,
}


def apply(names):
    for n in names:
        SHIMS[n]()
