"""Executes programs (lists of explicit ops) against the real puan library.

This module is imported in the zygote (pool worker) but its functions are only ever *called* in
forked children, so the zygote never executes a library call and stays pristine.
Everything an op needs is in the op: no PRNG, no clock.
"""
import json
import operator
import os
import sys

import numpy as np
import puan
import puan.logic.plog as pg
import puan.modules.configurator as cc
import puan.ndarray as pnd

from . import canon as C
from . import peer as P


class OpError(Exception):
    """malformed program (harness bug), never a verdict"""


class SubVariable(puan.variable):
    """a user-defined subclass of puan.variable (the library supports them: see
    test_constructing_proposition_model_with_variable_sub_classes); importable as pss.worker.SubVariable in every
    interpreter of the simulation, so it pickles"""


# ----------------------------------------------------------------------------- recipes

def _var_spec(v):
    if v is None or isinstance(v, str):
        return v
    if isinstance(v, list) and v and v[0] == "v":
        return puan.variable(v[1], (v[2], v[3]))
    raise OpError(f"bad variable spec {v!r}")


def build(r, resolve):
    t = r[0]
    if t == "var":
        return puan.variable(r[1], (r[2], r[3]))
    if t == "str":
        return r[1]
    if t == "subvar":
        return SubVariable(r[1], (r[2], r[3]))
    if t == "rawpoly":
        # a configurator polyhedron built by hand: rows (support column first), dtype, variables, default prios
        vs = [puan.variable(v[0], (v[1], v[2])) for v in r[3]]
        dt = np.dtype(r[2])
        dpv = None if r[4] is None else np.array(r[4], dtype=np.int64)
        mat = np.array(r[1], dtype=dt).reshape(len(r[1]), len(vs))
        opts = r[5] if len(r) > 5 and r[5] else {}
        lay = opts.get("layout", "C")
        if lay == "F":
            mat = np.asfortranarray(mat)
        elif lay == "rowslice":
            # a non-contiguous view: every second row of a larger buffer
            big = np.full((2 * mat.shape[0], mat.shape[1]), 7, dtype=dt)
            big[::2] = mat
            mat = big[::2]
        elif lay == "colslice":
            # a view that skips a junk column of a larger buffer (row stride > row length)
            big = np.full((mat.shape[0], mat.shape[1] + 1), 7, dtype=dt)
            big[:, :-1] = mat
            mat = big[:, :-1]
        kw = {}
        if opts.get("index") is not None:
            kw["index"] = [puan.variable(v[0], (v[1], v[2])) for v in opts["index"]]
        return pnd.ge_polyhedron_config(mat, default_prio_vector=dpv, variables=vs, dtype=dt.type, **kw)
    if t == "ref":
        return resolve(r[1])
    ch = lambda xs: [build(x, resolve) for x in xs]
    if t == "AtLeast":
        return pg.AtLeast(r[1], ch(r[2]), variable=_var_spec(r[3]), sign=r[4])
    if t == "AtMost":
        return pg.AtMost(r[1], ch(r[2]), variable=_var_spec(r[3]))
    if t in ("All", "Any", "Xor", "ExactlyOne", "XNor"):
        return getattr(pg, t)(*ch(r[1]), variable=_var_spec(r[2]))
    if t == "Imply":
        return pg.Imply(build(r[1], resolve), build(r[2], resolve), variable=_var_spec(r[3]))
    if t == "Not":
        return pg.Not(build(r[1], resolve))
    if t in ("ccAny", "ccXor"):
        cls = cc.Any if t == "ccAny" else cc.Xor
        default = r[2]
        if isinstance(default, list) and default and default[0] == "dv":
            default = [puan.variable(default[1], (default[2], default[3]))]
        return cls(*ch(r[1]), default=default, variable=_var_spec(r[3]))
    if t == "Stingy":
        return cc.StingyConfigurator(*ch(r[1]), id=r[2])
    if t == "from_json":
        if r[2] == "cc":
            return cc.StingyConfigurator.from_json(r[1])
        return pg.from_json(r[1])
    if t == "cicJE":
        return pg.Imply.from_cicJE(r[1])
    if t == "from_short":
        return pg.AtLeast.from_short(tuple(r[1]))
    raise OpError(f"unknown recipe tag {t!r}")


def decode_val(v):
    if isinstance(v, bool):
        return v
    if isinstance(v, int):
        return v
    if isinstance(v, list):
        t = v[0]
        if t == "t":
            return (v[1], v[2])
        if t == "B":
            return puan.Bounds(v[1], v[2])
        if t == "bad":
            return v[1]
        if t == "badf":
            return float(v[1])
        if t == "none":
            return None
        if t == "np":
            return np.int64(v[1])
    raise OpError(f"bad value {v!r}")


def decode_interp(d):
    return {k: decode_val(v) for k, v in d}


def decode_weights(d):
    """weights may be python ints, numpy integers (["np", v]) or integral floats (["fl", v])"""
    out = {}
    for k, v in d:
        if isinstance(v, list):
            out[k] = np.int64(v[1]) if v[0] == "np" else float(v[1])
        else:
            out[k] = v
    return out


class _CallbackAbort(RuntimeError):
    pass


class _AsyncAbort(BaseException):
    """an asynchronous exception (think KeyboardInterrupt / a timeout signal) delivered at the k-th executed line of
    library code inside one public call"""


_PUAN_ROOT = os.path.dirname(os.path.abspath(puan.__file__)) + os.sep


def with_async_abort(k, fn):
    count = {"n": 0}

    def tracer(frame, event, arg):
        if not frame.f_code.co_filename.startswith(_PUAN_ROOT):
            return None
        if event == "line":
            count["n"] += 1
            if count["n"] == k:
                raise _AsyncAbort("asynchronous abort")
        return tracer
    sys.settrace(tracer)
    try:
        return fn()
    finally:
        sys.settrace(None)


def make_out(spec):
    if spec is None:
        return None
    if spec == "constant":
        return operator.attrgetter("constant")
    if spec == "tuple":
        return lambda b: b.as_tuple()
    if isinstance(spec, dict) and "raise_at" in spec:
        n = {"k": 0}

        def cb(b):
            n["k"] += 1
            if n["k"] >= spec["raise_at"]:
                raise _CallbackAbort(f"out callback aborted at call {n['k']}")
            return b
        return cb
    raise OpError(f"bad out spec {spec!r}")


# ----------------------------------------------------------------------------- session

OBJ_METHODS = {"assume", "reduce", "negate", "add", "json_rt", "b64_rt", "ge_polyhedron_h", "poly_b64_rt",
               "to_ge_polyhedron_h"}


class Session:
    def __init__(self, store=None):
        self.objs = {}
        self.its = {}
        self.store = {} if store is None else store
        self.seam = None

    def resolve(self, h):
        try:
            return self.objs[h]
        except KeyError:
            raise OpError(f"unknown handle {h}")

    # -- one op ---------------------------------------------------------------
    def exec(self, op):
        """returns canonical result; library exceptions are canonicalised, OpError propagates"""
        kind = op["op"]
        self.seam = []
        try:
            if kind == "new":
                o = build(op["recipe"], self.resolve)
                self.objs[op["h"]] = o
                return {"obj": C.canon(o)}
            if kind == "call":
                if op.get("abort_at"):
                    return with_async_abort(op["abort_at"], lambda: self._call(op))
                return self._call(op)
            if kind == "next":
                it = self._it(op["it"])
                try:
                    return self._wrap({"item": C.canon(next(it))})
                except StopIteration:
                    return self._wrap({"stop": True})
            if kind == "drain":
                it = self._it(op["it"])
                return self._wrap({"items": [C.canon(x) for x in it]})
            if kind == "drop":
                self.its.pop(op["it"], None)
                return {"ok": True}
            if kind == "audit":
                return {"audit": self.audit()}
            if kind == "forget":
                # the caller drops its last reference: the object is freed and its address may be reused
                import gc
                self.objs.pop(op["h"], None)
                gc.collect()
                return {"ok": True}
            if kind == "snapshot":
                o = self.resolve(op["h"])
                s = o.to_b64()
                self.store[op["key"]] = s
                return {"snap": len(s) > 0, "dump": C.canon(o)}
            if kind == "restore":
                s = self.store[op["key"]]
                if op.get("kind") == "poly":
                    o = pnd.ge_polyhedron_config.from_b64(s)
                else:
                    o = pg.from_b64(s)
                self.objs[op["h"]] = o
                return {"obj": C.canon(o)}
            if kind == "crash":
                return {"crash": True}
            if kind == "util":
                if op["fn"] == "shadow":
                    arr = pnd.integer_ndarray(np.array(op["rows"], dtype=np.int64))
                    return {"v": C.canon(np.asarray(arr.ndint_compress(method="shadow", axis=0)))}
                raise OpError(f"unknown util {op['fn']}")
            raise OpError(f"unknown op {kind}")
        except OpError:
            raise
        except BaseException as e:  # noqa – library raised: that *is* the result
            if isinstance(e, (KeyboardInterrupt, SystemExit, MemoryError)):
                raise
            return self._wrap({"exc": C.canon_exc(e)})

    def _wrap(self, d):
        if self.seam:
            d["seam"] = self.seam
        return d

    def _it(self, name):
        if name not in self.its:
            raise OpError(f"unknown iterator {name}")
        return self.its[name]

    def audit(self):
        return {h: C.canon(o) for h, o in sorted(self.objs.items())}

    def _solver(self, spec):
        if spec is None:
            return None
        return P.make_solver(spec, self.seam)

    def _finish_iter(self, op, it):
        if op.get("consume", "now") == "defer":
            self.its[op["out"]] = iter(it)
            return self._wrap({"iter": True})
        return self._wrap({"items": [C.canon(x) for x in it]})

    def _call(self, op):
        o = self.resolve(op["h"])
        m = op["m"]
        a = op.get("a", {})
        if m == "evaluate":
            return {"v": C.canon(o.evaluate(decode_interp(a["i"])))}
        if m == "evaluate_propositions":
            out = make_out(a.get("out"))
            if out is None:
                r = o.evaluate_propositions(decode_interp(a["i"]))
            else:
                r = o.evaluate_propositions(decode_interp(a["i"]), out)
            return {"v": C.canon(r)}
        if m in ("assume", "reduce", "negate", "add", "json_rt", "b64_rt", "ge_polyhedron_h", "poly_b64_rt",
                 "to_ge_polyhedron_h"):
            if m == "assume":
                r = o.assume(decode_interp(a["i"]))
            elif m == "reduce":
                r = o.reduce()
            elif m == "negate":
                r = o.negate()
            elif m == "add":
                r = o.add(build(a["recipe"], self.resolve))
            elif m == "json_rt":
                data = json.loads(json.dumps(o.to_json()))
                if isinstance(o, cc.StingyConfigurator):
                    r = cc.StingyConfigurator.from_json(data)
                else:
                    r = pg.from_json(data)
            elif m == "b64_rt":
                r = pg.from_b64(o.to_b64())
            elif m == "ge_polyhedron_h":
                r = o.ge_polyhedron
            elif m == "to_ge_polyhedron_h":
                r = o.to_ge_polyhedron(a.get("active", False), a.get("reduced", False))
            elif m == "poly_b64_rt":
                r = pnd.ge_polyhedron_config.from_b64(o.to_b64())
            if op.get("out"):
                self.objs[op["out"]] = r
            return {"obj": C.canon(r)}
        if m in ("errors", "flatten", "_dependencies", "to_json", "to_text", "to_short", "leafs", "__repr__"):
            return {"v": C.canon(getattr(o, m)())}
        if m in ("variables", "is_tautology", "is_contradiction", "equation_bounds", "bounds", "id",
                 "default_prios", "ge_polyhedron"):
            return {"v": C.canon(getattr(o, m))}
        if m in ("atomic_propositions", "compound_propositions"):
            return {"v": C.canon(list(getattr(o, m)))}
        if m == "json_dumps":
            return {"v": json.loads(json.dumps(o))}
        if m == "to_b64":
            s = o.to_b64()
            if isinstance(o, pnd.ge_polyhedron_config):
                back = pnd.ge_polyhedron_config.from_b64(s)
            else:
                back = pg.from_b64(s)
            return {"v": ["b64", C.canon(back)], "raw": s}
        if m == "to_ge_polyhedron":
            return {"v": C.canon(o.to_ge_polyhedron(a.get("active", False), a.get("reduced", False)))}
        if m == "eq":
            other = self.resolve(a["other"])
            return {"v": [bool(o == other), bool(other == o), hash(o) == hash(other)]}
        if m == "solve":
            it = o.solve([decode_weights(x) for x in a["objs"]], self._solver(a.get("solver")),
                         a.get("reduce", False), a.get("virt", False))
            return self._finish_iter(op, it)
        if m == "select":
            it = o.select(*[decode_weights(x) for x in a["prios"]], solver=self._solver(a.get("solver")),
                          **({"only_leafs": a["only_leafs"]} if "only_leafs" in a else {}))
            return self._finish_iter(op, it)
        if m == "dump":
            return {"v": C.canon(o)}
        if m == "mutate":
            # the *caller* edits its own restored copy in place (plain numpy API on a polyhedron)
            if a.get("how") == "dpv":
                o.default_prio_vector[:] = 0
            else:
                o[(0,) * o.ndim] += 7
            return {"v": "mutated"}
        if m == "construct":
            return {"v": C.canon(o.construct(decode_weights(a["d"])))}
        raise OpError(f"unknown method {m}")


def run_ops(ops, want="all", store=None, stop_on_crash=False):
    """Execute ops in a fresh Session.  Returns (results, store, stopped_at)."""
    s = Session(store)
    res = []
    for i, op in enumerate(ops):
        if op["op"] == "crash" and stop_on_crash:
            res.append({"crash": True})
            return res, s.store, i
        r = s.exec(op)
        res.append(r)
    if want == "last":
        return res[-1:], s.store, None
    return res, s.store, None
