"""Harness-side reading of canonical dumps (pure python; independent of the library).

* info(dump): ids, bounds, kinds, box size.
* validate(dump): the generator's *own* well-definedness bookkeeping (DESIGN §2.3) — not errors().
* evaluate(dump, assignment): independent 15-line arithmetic evaluator (sign*sum(children) >= value).
"""


def nodes(d, out=None):
    out = [] if out is None else out
    if isinstance(d, dict):
        out.append(d)
        if d.get("k") == "cmp":
            for c in d["ch"]:
                nodes(c, out)
    return out


def info(d):
    """summary of a proposition dump"""
    if not isinstance(d, dict) or d.get("k") not in ("var", "cmp"):
        return None
    leaves, comps = {}, {}
    for n in nodes(d):
        if n["k"] == "var":
            leaves.setdefault(n["id"], tuple(n["b"]))
        else:
            comps.setdefault(n["id"], {"gen": n["gen"], "cls": n["cls"], "b": tuple(n["b"]),
                                      "sign": n["sign"], "value": n["value"],
                                      "ch": [c["id"] for c in n["ch"] if isinstance(c, dict)]})
    kind = "var" if d["k"] == "var" else ("cfg" if d["cls"] == "cc.StingyConfigurator" else "prop")
    box = 1
    for i, (lo, hi) in sorted(leaves.items(), key=lambda kv: str(kv[0])):
        box *= max(1, hi - lo + 1)
    for i, c in sorted(comps.items()):
        if i != d["id"] or d["k"] == "var":
            box *= max(1, c["b"][1] - c["b"][0] + 1)
    return {"kind": kind, "top": d["id"], "leaves": leaves, "comps": comps, "box": box,
            "bool": all(b == (0, 1) for b in leaves.values()),
            "has_default": any(n.get("default") for n in nodes(d) if n["k"] == "cmp"),
            "solver_safe": solver_safe(d)}


def solver_safe(d):
    """no sub-proposition sits under a negatively signed parent"""
    for n in nodes(d):
        if n["k"] == "cmp" and n["sign"] < 0 and any(c["k"] == "cmp" for c in n["ch"]):
            return False
    return True


def validate(d):
    """returns list of problems; [] = well-defined by the harness' own bookkeeping:
    acyclic by id, no duplicate child under one parent, one definition (and class) per id,
    leaf/compound ids disjoint, string ids only."""
    probs = []
    sig = {}
    graph = {}
    for n in nodes(d):
        i = n["id"]
        if not isinstance(i, str):
            probs.append(f"non-string id {i!r}")
            continue
        if n["k"] == "var":
            s = ("var", tuple(n["b"]), n["cls"])
        else:
            chids = [c["id"] for c in n["ch"]]
            if len(set(map(str, chids))) != len(chids):
                probs.append(f"duplicate child under {i}")
            if not chids:
                probs.append(f"empty compound {i}")
            # one *definition and class* per id: sign, value, children, own bounds, class.  The class matters because
            # AtLeast.__eq__ compares types: two same-id nodes of different classes are *not* de-duplicated by
            # flatten(), and their relative order in its result then depends on set iteration order, i.e. on
            # PYTHONHASHSEED (seen: default_prios -2 vs -1 for `pg.Any(h)` next to `AtLeast(1,[h])` in two
            # interpreters).  prio / default / generated-id flag may differ between same-class copies (e.g. the
            # complement node of a defaulted cc.Any next to a plain Any over the same items): those are equal, the
            # first inserted copy wins, which is decided by construction order, not by the hash seed.
            s = ("cmp", n["sign"], n["value"], tuple(sorted(map(str, chids))), tuple(n["b"]), n["cls"])
            graph.setdefault(i, set()).update(chids)
        if i in sig and sig[i] != s:
            probs.append(f"ambivalent definitions of {i}")
        sig.setdefault(i, s)
    # cycles
    state = {}

    def dfs(u):
        state[u] = 1
        for v in sorted(graph.get(u, ()), key=str):
            if state.get(v) == 1:
                return True
            if state.get(v) is None and v in graph and dfs(v):
                return True
        state[u] = 2
        return False

    for u in sorted(graph, key=str):
        if state.get(u) is None and dfs(u):
            probs.append("cycle")
            break
    return probs


def evaluate(d, assignment):
    """independent evaluator on a total leaf assignment: value per node id (bottom-up arithmetic)."""
    memo = {}

    def ev(n):
        if n["k"] == "var":
            return assignment[n["id"]]
        if n["id"] in memo:
            return memo[n["id"]]
        s = sum(ev(c) for c in n["ch"])
        v = 1 if n["sign"] * s >= n["value"] else 0
        memo[n["id"]] = v
        return v

    top = ev(d)
    return top, memo
