"""Seeded generation of programs (DESIGN §2.2–2.4).

One `random.Random(seed)` is the only source of choice.  Generation is *interactive*: after each
emitted op its pristine reference is computed (fork) and the canonical result (ids actually
present in the built objects, kinds of derived objects) informs later choices.  The resulting
program is fully explicit, so replaying it needs neither the PRNG nor this module.
"""
import copy

from . import engine, procs
from . import model as M
from . import recipes as R

LEAF_IDS = "abcdefghijxyz"
# explicit compound ids: mostly early capitals (sort before generated "VAR…" ids), some late capitals (sort after
# them) and a few lower-case ones (sort among the leaves): column order mixes the three kinds
COMP_IDS = "ABCDEFGHJKLMNPQRSTU"
COMP_IDS_LATE = "WXYZ"
COMP_IDS_LOW = "kmnq"
COMP_IDS_NUM = ["R10", "R9", "x11", "x3"]
COMP_IDS_VARLIKE = ["VARIANT", "VARX", "VAR1"]   # user-given names that merely start like generated ids
BOUNDS_FAMILIES = {
    "small": [(0, 2), (0, 3), (1, 3), (-1, 1), (-2, 2), (0, 1)],
    "twin": [(0, 2), (1, 1), (0, 3), (1, 2), (-1, 2), (-2, 2), (0, 4), (1, 3), (2, 2)],
    "neg": [(-3, 0), (-2, -1), (-1, 3), (-2, 3), (-1, 0), (-2, 0)],
    "wide": [(-32768, 32767), (0, 1000), (-5, 3), (0, 32767), (-32768, 0)],
    "degenerate": [(0, 0), (1, 1), (2, 2), (0, 1), (-1, -1)],
    "medium": [(0, 65), (0, 100), (-70, 70), (0, 200), (-130, 5), (0, 300), (1, 129)],
    # beyond the library's default 16-bit range (legal: bounds are free): coefficients past 2**31
    "huge": [(0, 2 ** 33), (-2 ** 33, 2 ** 33), (0, 2 ** 40), (-2 ** 31 - 5, 7), (0, 1)],
}
FAULT_KINDS = ["abort-async", "abort-arg", "abort-callback", "solver-raise", "solver-none", "solver-lazy", "solver-status",
               "solver-vectype", "defer", "abandon"]
PLAIN_QUERIES = ["errors", "flatten", "variables", "atomic_propositions", "compound_propositions", "is_tautology",
                 "is_contradiction", "equation_bounds", "bounds", "id", "to_json", "json_dumps", "to_text",
                 "to_short", "to_b64", "__repr__"]
CFG_QUERIES = ["ge_polyhedron", "default_prios", "leafs"]
VAR_METHODS = ["evaluate", "evaluate_propositions", "assume", "flatten", "to_json", "to_short"]


def make_profile(rng, tier="quick"):
    p = {}
    p["nleaves"] = rng.choice([3, 4, 5, 6, 8])
    p["int_leaf_prob"] = rng.choice([0, 0, 0.2, 0.5])
    p["bounds_family"] = rng.choice(sorted(BOUNDS_FAMILIES))
    p["depth"] = rng.choice([1, 2, 2, 3])
    p["fan"] = rng.choice([2, 3, 4])
    p["explicit_id_prob"] = rng.choice([0.2, 0.5, 0.8, 1.0])
    p["nmodels"] = rng.choice([1, 2, 2, 3])
    p["alias_prob"] = rng.choice([0, 0.3, 0.6])
    p["twin_prob"] = rng.choice([0, 0.3, 0.7])
    p["cfg_prob"] = rng.choice([0.2, 0.5, 0.9])
    p["nops"] = rng.choice([8, 12, 20, 30, 40] if tier == "quick" else [12, 20, 30, 40, 60, 80])
    p["compound_key_prob"] = rng.choice([0.0, 0.15, 0.25, 0.5])
    p["derive_prob"] = rng.choice([0.05, 0.15, 0.3])
    fault_free = rng.random() < 0.25
    p["fault_free"] = fault_free
    p["fault"] = {k: (not fault_free) and rng.random() < 0.5 for k in FAULT_KINDS}
    p["prefix_const_prob"] = rng.choice([0, 0, 0.05])
    p["builtin_solver_prob"] = rng.choice([0.0, 0.3, 0.6])
    if tier == "thorough":
        p["depth"] = rng.choice([1, 2, 2, 3, 3, 4])
        p["fan"] = rng.choice([2, 3, 4, 5])
        p["nleaves"] = rng.choice([3, 4, 5, 6, 8, 10])
        p["nmodels"] = rng.choice([1, 2, 2, 3, 4, 6])
        # soak session: one long-lived worker, a large population of configurators (cache pressure: more than
        # 128 distinct cache keys would be needed to evict a default-sized LRU), many near-twins
        p["soak"] = rng.random() < 0.04
        if p["soak"]:
            p["nops"] = rng.choice([300, 500, 700])
            p["nmodels"] = rng.choice([40, 80, 140])
            p["cfg_prob"] = 0.9
            p["twin_prob"] = 0.5
            p["alias_prob"] = 0.2
            p["depth"] = rng.choice([1, 2])
    return p


class Gen:
    def __init__(self, rng, profile, oracle, max_box=1 << 14):
        self.rng = rng
        self.p = profile
        self.oracle = oracle
        self.ops = []
        self.refs = []
        self.handles = {}     # name -> dict(kind, info, dump, recipe, twin_of, aliases)
        self.order = []       # live object handle names in creation order
        self.its = {}         # live iterator handles -> creator op idx
        self.nh = 0
        self.max_box = max_box
        self.fired = {}       # fault kind -> count (as generated into the program)
        self.events = []      # abstract event log for coverage signature
        self.skipped = {}
        self.num_weights = rng.random() < 0.1   # this caller's weights come out of numpy arrays / json floats
        self.subvars = set()  # leaf ids that are instances of a puan.variable *subclass* in this world
        self.last_keys = {}
        self.async_abort = False   # only C09 histories carry asynchronous aborts
        self.history = {}     # handle -> call ops emitted on it (for echo / replay on a reborn object)
        self.force_solver = None
        self.hits = {}
        self.dead = set()     # handles on which the built-in solver hung: never handed to it again
        self.leafb = {}
        fam = BOUNDS_FAMILIES[self.p["bounds_family"]]
        pool = LEAF_IDS[:self.p["nleaves"]] if rng.random() < 0.6 else "".join(sorted(rng.sample(LEAF_IDS, min(len(LEAF_IDS), self.p["nleaves"]))))
        pool = list(pool)
        self.numeric_world = False
        if rng.random() < 0.08:
            k = rng.randint(2, min(3, len(pool)))
            pool = pool[:-k] + ["x10", "x9", "x2"][:k]
            self.numeric_world = True   # ids with numeric suffixes: numeric and lexicographic order disagree
        elif rng.random() < 0.12:
            # digit strings are legal item ids; they look like the integer ids the library gives row indices and
            # default columns
            k = rng.randint(1, min(3, len(pool)))
            pool = pool[:-k] + ["1", "2", "3", "0"][:k]
        if rng.random() < 0.08:
            # user items whose names merely start like the ids the library generates for helper nodes
            k = rng.randint(1, min(2, len(pool)))
            pool = pool[:-k] + ["VARIANT_A", "VAR_b"][:k]
        if rng.random() < 0.08:
            self.subvars = set(rng.sample(pool, rng.randint(1, min(2, len(pool)))))
        for c in pool:
            if rng.random() < self.p["int_leaf_prob"]:
                self.leafb[c] = rng.choice(fam)
            else:
                self.leafb[c] = (0, 1)

    # ------------------------------------------------------------------ plumbing
    def fresh(self, prefix="h"):
        self.nh += 1
        return f"{prefix}{self.nh}"

    def fault(self, kind):
        self.fired[kind] = self.fired.get(kind, 0) + 1

    def emit(self, op, meta=None):
        self.ops.append(op)
        k = len(self.ops) - 1
        if op["op"] == "audit":
            self.refs.append(None)
            return None
        try:
            ref = self.oracle(self.ops, k)
        except procs.ChildTimeout:
            if not any(engine.uses_builtin_solver(o) for o in self.ops):
                raise
            # the library's built-in (beta) solver did not terminate on this request in a pristine process:
            # no property here speaks about it; the op is dropped from the program and counted
            self.ops.pop()
            self.skipped["builtin-solver-timeout"] = self.skipped.get("builtin-solver-timeout", 0) + 1
            self.dead.add(op.get("h"))
            return None
        self.refs.append(ref)
        if op["op"] == "call" and op.get("m") not in ("eq",):
            self.history.setdefault(op["h"], []).append(op)
        self.probe(op, ref)
        if isinstance(ref, dict) and "obj" in ref and not op.get("abort_at"):
            # (an object-creating call that carries an asynchronous abort may finish in one execution and not in the
            #  other: whatever it returns is never used again)
            name = op.get("h") if op["op"] in ("new", "restore") else op.get("out")
            if name:
                self.register(name, ref["obj"], op, meta or {})
        if isinstance(ref, dict) and ref.get("iter") and op.get("out"):
            self.its[op["out"]] = k
        return ref

    def hit(self, name, n=1):
        self.hits[name] = self.hits.get(name, 0) + n

    def probe(self, op, ref):
        """reach probes: what actually *happened* (in the pristine reference of the op), not what was configured"""
        if not isinstance(ref, dict):
            return
        a = op.get("a") or {}
        exc = ref.get("exc")
        self.hit("op-outcome:raised" if exc else "op-outcome:ordinary-result")
        if op["op"] == "call":
            items = a.get("i") or []
            if any(isinstance(v, list) and v and v[0] in ("bad", "badf", "none") or
                   (isinstance(v, list) and v and v[0] == "t" and v[1] > v[2]) for _, v in items):
                self.hit("abort-arg:raised" if exc else "abort-arg:swallowed")
            if isinstance(a.get("out"), dict):
                if exc and exc[1] == "_CallbackAbort":
                    self.hit("abort-callback:raised")
                    if a["out"]["raise_at"] > 1:
                        self.hit("abort-callback:after>=1-node-visited")
                else:
                    self.hit("abort-callback:not-reached")
            H = self.handles.get(op.get("h"))
            if items and H and H.get("info"):
                comps = H["info"]["comps"]
                if any(k in comps for k, _ in items):
                    self.hit("interp-names-compound-id-of-target")
                elif any(k != "zz" and k not in H["info"]["leaves"] for k, _ in items):
                    self.hit("interp-names-id-of-related-object")
            if op.get("abort_at"):
                self.hit("abort-async:fired-inside-the-call" if (exc and exc[1] == "_AsyncAbort") else "abort-async:call-finished-first")
            if exc and not items:
                self.hit("library-exception:" + exc[1])
        for s in ref.get("seam") or []:
            self.hit("solver-called")
            spec = a.get("solver") or {}
            if spec.get("mode") == "raise":
                self.hit("solver-raise:fired")
            ans = s.get("answers") or []
            if any(x[0] is None for x in ans):
                self.hit("solver-none:fired")
            if spec.get("lazy"):
                self.hit("solver-lazy:fired")
            if spec.get("status") is not None and ans:
                self.hit("solver-status:fired")
            if spec.get("vectype") and ans:
                self.hit("solver-vectype:fired")
            if spec.get("mode") == "exact" and any(x[2] == 5 for x in ans):
                self.hit("solver-exact:optimum-found")
            if spec.get("mode") == "exact" and any(x[2] == 4 for x in ans):
                self.hit("solver-exact:infeasible")
        if op["op"] in ("next", "drain"):
            self.hit("lazy-result-consumed-later")
            if exc:
                self.hit("lazy-result-raised-on-consumption")
        if op["op"] == "drop":
            self.hit("lazy-result-abandoned")
        if op["op"] == "restore":
            self.hit("restore")
        if op["op"] == "call" and op["m"] == "add":
            self.hit("add:refused" if (exc or ref.get("must_raise")) else ("add:ungated" if ref.get("ungated") else "add:accepted"))
        if op["op"] == "call" and uses_builtin(op) and not exc:
            self.hit("builtin-solver-answered")

    def register(self, name, dump, op, meta):
        if isinstance(dump, dict) and dump.get("k") == "poly":
            self.handles[name] = {"kind": "poly", "dump": dump, "info": None, "recipe": None, **meta}
        else:
            inf = M.info(dump)
            if inf is None:
                return
            if op["op"] != "new" and M.validate(dump):
                # a derived object that is not well-defined by the harness' bookkeeping (e.g. add() of a rule
                # whose id collides with a nested id): its creation was compared, it is never used again
                return
            self.handles[name] = {"kind": inf["kind"], "dump": dump, "info": inf,
                                  "recipe": op.get("recipe") if op["op"] == "new" else None, **meta}
        self.order.append(name)

    # ------------------------------------------------------------------ recipes
    def leaf(self, i):
        lo, hi = self.leafb[i]
        if i in self.subvars:
            return ["subvar", i, lo, hi]
        if (lo, hi) == (0, 1) and self.rng.random() < 0.6:
            return ["str", i]
        return ["var", i, lo, hi]

    def idspec(self, used):
        rng = self.rng
        if rng.random() < self.p["explicit_id_prob"]:
            free = [c for c in COMP_IDS if c not in used]
            r0 = rng.random()
            if r0 < 0.12:
                free = [c for c in COMP_IDS_LATE if c not in used] or free
            elif r0 < 0.2:
                free = [c for c in COMP_IDS_LOW if c not in used and c not in self.leafb] or free
            elif r0 < 0.26 or (self.numeric_world and r0 < 0.6):
                free = [c for c in COMP_IDS_NUM if c not in used and c not in self.leafb] or free
            elif r0 < 0.31:
                free = [c for c in COMP_IDS_VARLIKE if c not in used] or free
            if free:
                i = rng.choice(free[:8])
                used.add(i)
                if rng.random() < 0.15:
                    b = (0, 1)
                    if rng.random() < self.p["prefix_const_prob"]:
                        b = rng.choice([(0, 0), (1, 1)])
                    return ["v", i, b[0], b[1]]
                return i
        return None

    def compound(self, depth, used, kinds=None, leaves=None):
        rng = self.rng
        leaves = leaves if leaves is not None else sorted(self.leafb)
        default_kinds = kinds is None
        kinds = kinds or ["AtLeast", "AtMost", "All", "Any", "Any", "All", "Xor", "ExactlyOne", "XNor", "Imply",
                          "Not", "ccAny", "ccXor"]
        if default_kinds and rng.random() < 0.06:
            c = self.cicje()
            if c is not None:
                return c
        t = rng.choice(kinds)
        n = rng.randint(1, min(self.p["fan"], len(leaves)))
        if t in ("Imply",):
            n = 2
        if t == "Not":
            n = 1
        if t in ("ccAny", "ccXor", "Xor", "ExactlyOne", "XNor"):
            n = max(2, n) if len(leaves) >= 2 else n
        chosen = rng.sample(leaves, n)
        ch = []
        for c in chosen:
            if depth > 1 and rng.random() < 0.45 and t not in ("ccAny", "ccXor"):
                ch.append(self.compound(depth - 1, used, leaves=leaves))
            else:
                ch.append(self.leaf(c))
        # dedupe identical child recipes (would be a duplicate child)
        seen, ch2 = set(), []
        for c in ch:
            key = repr(c)
            if key not in seen:
                seen.add(key)
                ch2.append(c)
        ch = ch2
        ident = self.idspec(used)
        if t == "AtLeast":
            lo = sum(self.leafb[c[1]][0] if c[0] in ("var", "str", "subvar") else 0 for c in ch)
            hi = sum(self.leafb[c[1]][1] if c[0] in ("var", "str", "subvar") else 1 for c in ch)
            if rng.random() < 0.7:
                lo, hi = max(lo, -40), min(hi, 40)
            else:
                lo, hi = max(lo, -40000), min(hi, 40000)
            sign = rng.choice([None, None, 1, -1])
            if sign == -1:
                value = rng.randint(-hi - 1, -lo + 1)
            else:
                value = rng.randint(lo - 1, hi + 1)
            return ["AtLeast", value, ch, ident, sign]
        if t == "AtMost":
            hi = sum(self.leafb[c[1]][1] if c[0] in ("var", "str", "subvar") else 1 for c in ch)
            return ["AtMost", rng.randint(0, max(0, min(hi, 40 if rng.random() < 0.7 else 40000))), ch, ident]
        if t in ("All", "Any", "Xor", "ExactlyOne", "XNor"):
            return [t, ch, ident]
        if t == "Imply":
            if len(ch) < 2:
                return ["Any", ch, ident]
            return ["Imply", ch[0], ch[1], ident]
        if t == "Not":
            return ["Not", ch[0]]
        if t in ("ccAny", "ccXor"):
            leaf_ids = [c[1] for c in ch if c[0] in ("var", "str", "subvar")]
            default = None
            if leaf_ids and rng.random() < 0.85:
                d = rng.choice(leaf_ids)
                r = rng.random()
                if r < 0.6:
                    default = [d]
                elif r < 0.8:
                    default = d if len(d) == 1 else [d]
                else:
                    lo, hi = self.leafb[d]
                    default = ["dv", d, lo, hi]
            return [t, ch, default, ident]
        raise AssertionError(t)

    def cicje(self):
        """a rule given as a cicJE dictionary (Imply.from_cicJE); boolean leaves only"""
        rng = self.rng
        bools = [i for i in sorted(self.leafb) if self.leafb[i] == (0, 1)]
        if len(bools) < 3:
            return None

        ints = [i for i in sorted(self.leafb) if self.leafb[i] == (-32768, 32767)]

        def comps(n):
            out = [{"id": i} for i in rng.sample(bools, min(n, len(bools)))]
            if ints and rng.random() < 0.4:
                out.append({"id": rng.choice(ints), "dtype": "int", "type": "int"})
            return out
        data = {"consequence": {"ruleType": rng.choice(["REQUIRES_ALL", "REQUIRES_ANY", "ONE_OR_NONE", "FORBIDS_ALL",
                                                         "REQUIRES_EXCLUSIVELY"]),
                                "components": comps(rng.randint(1, 3))}}
        if rng.random() < 0.8:
            subs = []
            for _ in range(rng.randint(1, 2)):
                subs.append({"relation": rng.choice(["ALL", "ANY"]), "components": comps(rng.randint(1, 2))})
            data["condition"] = {"relation": rng.choice(["ALL", "ANY"]), "subConditions": subs}
        if rng.random() < 0.5:
            data["id"] = rng.choice("STUVW")
        return ["cicJE", data]

    def configurator(self, used):
        rng = self.rng
        nrules = rng.randint(1, 4)
        rules = []
        leaves = sorted(self.leafb)
        for _ in range(nrules):
            r = rng.random()
            if r < 0.35:
                rules.append(self.compound(1, used, kinds=["ccAny", "ccXor"], leaves=leaves))
            elif r < 0.6:
                cond = self.compound(1, used, kinds=["All", "Any"], leaves=leaves)
                cons = self.compound(1, used, kinds=["ccXor", "ccAny", "All", "Any", "AtMost"], leaves=leaves)
                rules.append(["Imply", cond, cons, self.idspec(used)])
            elif r < 0.7:
                rules.append(self.leaf(rng.choice(leaves)))
            else:
                rules.append(self.compound(min(2, self.p["depth"]), used, leaves=leaves))
        if self.numeric_world and not any(r[0] in ("var", "str", "subvar") for r in rules):
            rules.append(self.leaf(rng.choice([i for i in leaves if i.startswith("x")] or leaves)))
        seen, out = set(), []
        for c in rules:
            if repr(c) not in seen:
                seen.add(repr(c))
                out.append(c)
        ident = None
        if rng.random() < self.p["explicit_id_prob"]:
            free = [c for c in COMP_IDS if c not in used]
            if free:
                ident = rng.choice(free[:8])
                used.add(ident)
        return ["Stingy", out, ident]

    def new_model(self, want_cfg=None, alias_of=None, tries=8):
        """emit `new` ops until one builds a model that is well-defined by the harness' own bookkeeping"""
        rng = self.rng
        aliased = alias_of is not None and alias_of in self.handles and self.handles[alias_of]["kind"] in ("prop", "cfg")
        for attempt in range(tries):
            used = set()
            if aliased:
                used |= set(self.handles[alias_of]["info"]["comps"])
            cfg = want_cfg if want_cfg is not None else rng.random() < self.p["cfg_prob"]
            if attempt >= tries - 2:
                if aliased:
                    rec = ["Stingy", [["str", "a"]], None] if cfg else ["All", [["str", "a"]], None]
                else:
                    rec = ["Stingy" if cfg else "All", [["Any", [["str", "a"], ["str", "b"]], "B"], ["str", "c"]], "A"]
            elif cfg:
                rec = self.configurator(used)
            else:
                rec = self.compound(self.p["depth"], used, kinds=["AtLeast", "AtMost", "All", "Any", "All", "Any",
                                                                 "Xor", "XNor", "Imply", "ccAny", "ccXor"])
            meta = {}
            if aliased:
                # share a live sub-object: put `ref alias_of` (or rebuild around it)
                chs = R.children(rec)
                if rec[0] in R.LIST_CHILD_POS and chs:
                    chs[rng.randrange(len(chs))] = ["ref", alias_of]
                    rec = R.with_children(rec, chs)
                    meta["alias_of"] = alias_of
            h = self.fresh()
            op = {"op": "new", "h": h, "recipe": rec}
            ref = self.emit(op, meta)
            ok = isinstance(ref, dict) and "obj" in ref and not M.validate(ref["obj"]) \
                and ref["obj"].get("k") == "cmp"
            if ok:
                return h
            # discard the failed attempt (op removed: it defines nothing anybody uses)
            self.ops.pop()
            self.refs.pop()
            if h in self.handles:
                del self.handles[h]
                self.order.remove(h)
        raise RuntimeError("could not generate a well-defined model")

    def complement_rule(self, h, used):
        """a rule containing a plain Any over exactly the non-default items of a defaulted cc.Any/cc.Xor that the
        configurator already has: it gets the same generated id as the library's internal complement node (which
        carries prio -2) – identical definition, different prio; which copy wins must not depend on history"""
        rng = self.rng
        rec = self.recipe_of(h)
        if rec is None:
            return None
        cands = []
        for n in R.walk(rec):
            if n[0] in ("ccAny", "ccXor") and n[2] is not None:
                d = n[2][0] if isinstance(n[2], list) and n[2] and n[2][0] != "dv" else (n[2][1] if isinstance(n[2], list) else n[2])
                rest = [c for c in n[1] if c[0] in ("var", "str", "subvar") and c[1] != d]
                if rest and len(rest) < len(n[1]):
                    cands.append(rest)
        if not cands:
            return None
        rest = copy.deepcopy(rng.choice(cands))
        inner = ["Any", rest, None]
        r = rng.random()
        if r < 0.35:
            return inner
        if r < 0.7:
            return [rng.choice(["All", "Any"]), [inner, self.leaf(rng.choice(sorted(self.leafb)))], self.idspec(used)]
        return ["Imply", self.leaf(rng.choice(sorted(self.leafb))), inner, self.idspec(used)]

    def recipe_of(self, h, depth=0):
        """construction recipe behind a handle (through restores / b64 round trips), if known"""
        H = self.handles.get(h)
        if H is None or depth > 10:
            return None
        if H.get("recipe") is not None:
            return H["recipe"]
        if H.get("src") is not None:
            return self.recipe_of(H["src"], depth + 1)
        return None

    def twin(self, h):
        """a near-twin: differs from h only in what __eq__/__hash__ ignore (DESIGN §2.3)"""
        rng = self.rng
        rec = self.handles[h].get("recipe")
        if rec is None:
            return None
        rec = copy.deepcopy(rec)
        nodes = [n for n in R.walk(rec)]
        how = rng.choice(["bounds", "bounds", "bounds", "default", "class"])
        done = False
        cic = [n for n in nodes if n[0] == "cicJE"]
        if cic and rng.random() < 0.5:
            # same rule dictionaries, one component switched between boolean and integer type
            def comps_of(d, out):
                if isinstance(d, dict):
                    if isinstance(d.get("components"), list):
                        out += [c for c in d["components"] if isinstance(c, dict) and "id" in c]
                    for v in d.values():
                        comps_of(v, out)
                elif isinstance(d, list):
                    for v in d:
                        comps_of(v, out)
                return out
            allc = []
            for n in cic:
                comps_of(n[1], allc)
            if allc:
                i = rng.choice(sorted({c["id"] for c in allc}))
                to_int = not any(c["id"] == i and "dtype" in c for c in allc)
                for c in allc:
                    if c["id"] == i:
                        if to_int:
                            c["dtype"] = "int"
                            c["type"] = "int"
                        else:
                            c.pop("dtype", None)
                            c.pop("type", None)
                nb = (-32768, 32767) if to_int else (0, 1)
                for m in nodes:
                    if m[0] in ("var", "str", "subvar") and m[1] == i:
                        m[:] = ["subvar" if m[0] == "subvar" else "var", i, nb[0], nb[1]]
                done = True
                how = "cicje-type"
        if how == "bounds" and not done:
            cands = [n for n in nodes if n[0] in ("var", "str", "subvar")]
            rng.shuffle(cands)
            top_level = {repr(c) for c in R.children(rec)}
            # nested leaves first: a changed bound of a direct child of the top node changes equation_bounds,
            # i.e. is *seen* by __eq__ and is no twin in the cache-identity sense
            cands.sort(key=lambda n: repr(n) in top_level)
            for n in cands:
                lo, hi = (0, 1) if n[0] == "str" else (n[2], n[3])
                alts = []
                if hi - lo >= 2:
                    alts.append((lo + 1, hi - 1))
                if lo >= 1:
                    alts.append((lo - 1, hi + 1))
                if lo == -1:
                    alts.append((-2, hi))
                if lo == -2:
                    alts.append((-1, hi))
                if hi == -1 and lo <= -2:
                    alts.append((lo, -2))
                if not alts:
                    continue
                nlo, nhi = rng.choice(alts)
                i = n[1]
                # change every occurrence of this leaf id consistently
                for m in nodes:
                    if m[0] in ("var", "str", "subvar") and m[1] == i:
                        m[:] = ["subvar" if m[0] == "subvar" else "var", i, nlo, nhi]
                done = True
                break
        if (how == "default" and not done) or (not done and how != "class"):
            for n in nodes:
                if n[0] in ("ccAny", "ccXor") and n[2] is not None:
                    if n[0] == "ccAny":
                        d = n[2][0] if isinstance(n[2], list) and n[2][0] != "dv" else (n[2][1] if isinstance(n[2], list) else n[2])
                        dflt = [c for c in n[1] if c[0] in ("var", "str", "subvar") and c[1] == d]
                        rest = [c for c in n[1] if not (c[0] in ("var", "str", "subvar") and c[1] == d)]
                        if dflt and rest:
                            n[:] = ["Any", dflt + [["Any", rest, None]], n[3]]
                            done = True
                            break
                    n[2] = None
                    done = True
                    break
        if (how == "class" and not done) or not done:
            for n in nodes:
                if n[0] == "ccAny" and n[2] is None:
                    n[:] = ["Any", n[1], n[3]]
                    done = True
                    break
                if n[0] == "Any" and rng.random() < 0.5:
                    n[:] = ["ccAny", n[1], None, n[2]]
                    done = True
                    break
        if not done:
            return None
        t = self.fresh()
        ref = self.emit({"op": "new", "h": t, "recipe": rec}, {"twin_of": h})
        if not (isinstance(ref, dict) and "obj" in ref and not M.validate(ref["obj"])):
            self.ops.pop()
            self.refs.pop()
            if t in self.handles:
                del self.handles[t]
                self.order.remove(t)
            return None
        self.handles[h].setdefault("twins", []).append(t)
        return t

    # ------------------------------------------------------------------ arguments
    def related(self, h):
        """handles whose objects share sub-objects or cache identity with h"""
        out = []
        H = self.handles
        for o in self.order:
            if o == h or H[o]["kind"] == "poly":
                continue
            if H[o].get("alias_of") == h or H[h].get("alias_of") == o or H[o].get("twin_of") == h \
                    or H[h].get("twin_of") == o or H[o].get("base") == h or H[h].get("base") == o:
                out.append(o)
        return out

    def value_for(self, lo, hi, fix=True):
        rng = self.rng
        r = rng.random()
        if lo > hi:
            lo, hi = hi, lo
        span_lo, span_hi = max(lo, -50), min(hi, 50)
        if span_lo > span_hi:
            span_lo = span_hi = lo
        v = rng.randint(span_lo, span_hi)
        if r < 0.05:
            v = rng.choice([lo - 1, hi + 1])
        if r < 0.65 or fix:
            form = rng.random()
            if form < 0.7:
                return v
            if form < 0.85:
                return ["t", v, v]
            return ["B", v, v]
        w = rng.randint(v, span_hi)
        return rng.choice([["t", v, w], ["B", v, w]])

    def interp(self, h, allow_fault=True, total_bias=None):
        rng = self.rng
        inf = self.handles[h]["info"]
        leaves, comps = inf["leaves"], inf["comps"]
        p_inc = total_bias if total_bias is not None else rng.choice([1.0, 1.0, 0.7, 0.3])
        fix = rng.random() < 0.7
        d = []
        for i in sorted(leaves, key=str):
            if not isinstance(i, str):
                continue
            if rng.random() < p_inc:
                lo, hi = leaves[i]
                d.append([i, self.value_for(lo, hi, fix)])
        named = False
        if rng.random() < self.p["compound_key_prob"]:
            pool = sorted(comps)
            for o in self.related(h):
                oi = self.handles[o]["info"]
                if oi:
                    pool += sorted(oi["comps"])
            pool = sorted(set(pool))
            if pool:
                for _ in range(rng.choice([1, 1, 2])):
                    c = rng.choice(pool)
                    r = rng.random()
                    val = rng.choice([0, 1]) if r < 0.7 else rng.choice([["t", 0, 1], ["t", 1, 1], ["B", 0, 0], ["B", 0, 1]])
                    d.append([c, val])
                    named = True
        if rng.random() < 0.1:
            d.append(["zz", rng.choice([0, 1, 5])])
        aborted = False
        if allow_fault and self.p["fault"]["abort-arg"] and rng.random() < 0.12 and d:
            j = rng.randrange(len(d))
            if rng.random() < 0.3 and comps:
                d.append([rng.choice(sorted(comps)), rng.choice([["bad", "x"], ["t", 1, 0], ["badf", 0.5], ["none"]])])
            else:
                d[j] = [d[j][0], rng.choice([["bad", "x"], ["t", 1, 0], ["badf", 0.5], ["none"]])]
            aborted = True
            self.fault("abort-arg")
        # de-duplicate keys (last wins), deterministic order shuffled by rng
        dd = {}
        for k, v in d:
            dd[k] = v
        items = [[k, dd[k]] for k in dd]
        rng.shuffle(items)
        return items, named, aborted

    def weights(self, h, allow_zero=True):
        rng = self.rng
        inf = self.handles[h]["info"]
        ids = sorted(i for i in inf["leaves"] if isinstance(i, str)) + sorted(inf["comps"])
        k = rng.randint(0, min(4, len(ids)))
        chosen = rng.sample(ids, k) if k else []
        # same id set as an earlier request on this (or a related) object, weights re-drawn / re-ranked:
        # a memo keyed by ids only would replay the earlier answer
        prev = None
        for o in [h] + self.related(h):
            if self.last_keys.get(o):
                prev = self.last_keys[o]
                break
        if prev and rng.random() < 0.35:
            chosen = [i for i in prev if i in ids]
        if chosen:
            self.last_keys[h] = list(chosen)
        d = []
        for i in chosen:
            w = rng.choice([-3, -2, -2, -1, -1, 1, 1, 2, 3, 5] + ([0] if allow_zero else []))
            if rng.random() < 0.04:
                w = rng.choice([127, 128, 300, 1000, -129, -200, 40000, 2 ** 31, 2 ** 53 + 1, -(2 ** 60) - 1])   # past int8/16/32 and past float64's 53 bits
            if self.num_weights and rng.random() < 0.5:
                w = [rng.choice(["np", "fl"]), w]   # the caller hands numpy integers / integral floats
            d.append([i, w])
        if any(isinstance(x[1], list) and x[1][0] == "fl" for x in d) and \
                any(abs(x[1][1] if isinstance(x[1], list) else x[1]) > 2 ** 53 for x in d):
            # a float anywhere in a dictionary makes numpy take the whole row through float64: weights past 2^53
            # next to a float lose their last bits *by the caller's choice of type* (the declared type is int) –
            # nothing the property promises; such dictionaries carry their integral floats as numpy integers instead
            for x in d:
                if isinstance(x[1], list) and x[1][0] == "fl":
                    x[1][0] = "np"
        if rng.random() < 0.12:
            # an id the model does not have: either far from every id, or an existing id with something appended
            unk = "zz" if rng.random() < 0.5 or not ids else rng.choice(ids) + rng.choice(["0", "1", "x", "_b"])
            if unk not in ids and unk not in [x[0] for x in d]:
                d.append([unk, rng.choice([1, 1, 2, 7])])
        return d

    def solver_spec(self, h, allow_builtin=True):
        rng = self.rng
        inf = self.handles[h]["info"]
        F = self.p["fault"]
        if self.force_solver == "builtin" and allow_builtin and h not in self.dead and inf["box"] <= 4096:
            return None
        if isinstance(self.force_solver, dict):
            return dict(self.force_solver)
        if allow_builtin and h not in self.dead and self.handles[h].get("base") not in self.dead \
                and inf["box"] <= 4096 and rng.random() < self.p["builtin_solver_prob"]:
            return None
        modes = ["position", "ones", "lower"]
        if inf["box"] <= self.max_box:
            modes += ["exact"] * 4
        spec = {"mode": rng.choice(modes)}
        if F["solver-raise"] and rng.random() < 0.12:
            spec = {"mode": "raise"}
            exc = rng.choice(["msg", "msg", "bare", "assert", "stop", "key"])
            if exc != "msg":
                spec["exc"] = exc       # argument-less / non-RuntimeError exceptions are exceptions too
            self.fault("solver-raise")
            return spec
        if F["solver-none"] and rng.random() < 0.2:
            spec["none"] = sorted(set(rng.choice([[0], [1], [0, 1], [0, 2]])))
            self.fault("solver-none")
        if F["solver-lazy"] and rng.random() < 0.3:
            spec["lazy"] = True
            self.fault("solver-lazy")
        if F["solver-status"] and rng.random() < 0.2:
            spec["status"] = rng.choice([1, 2, 3, 4, 6])
            self.fault("solver-status")
        if F["solver-vectype"] and rng.random() < 0.25:
            spec["vectype"] = rng.choice(["list", "float", "int32"])
            self.fault("solver-vectype")
        return spec

    # ------------------------------------------------------------------ ops
    def pick_target(self, kinds=("prop", "cfg", "var"), prefer=None):
        rng = self.rng
        c = [h for h in self.order if self.handles[h]["kind"] in kinds]
        if not c:
            return None
        if prefer and prefer in c and rng.random() < 0.5:
            return prefer
        # recency bias
        if rng.random() < 0.5:
            return c[-1 - min(len(c) - 1, int(rng.expovariate(1.0)))]
        return rng.choice(c)

    def op_for(self, h, method=None):
        """build one call op on h; returns op dict (not emitted) and event tags"""
        rng = self.rng
        H = self.handles[h]
        kind = H["kind"]
        tags = []
        if kind == "var":
            m = method or rng.choice(VAR_METHODS)
        else:
            if method:
                m = method
            else:
                r = rng.random()
                if r < 0.30:
                    m = "evaluate"
                elif r < 0.40:
                    m = "evaluate_propositions"
                elif r < 0.40 + self.p["derive_prob"]:
                    m = rng.choice(["assume", "assume", "reduce", "negate", "json_rt", "b64_rt"] + (["add"] * 3 if kind == "cfg" else []))
                elif r < 0.75:
                    m = rng.choice(PLAIN_QUERIES + (CFG_QUERIES * 3 if kind == "cfg" else []))
                elif r < 0.85:
                    m = "to_ge_polyhedron"
                else:
                    m = "select" if kind == "cfg" and rng.random() < 0.7 else "solve"
        op = {"op": "call", "h": h, "m": m}
        if kind == "var" and m not in VAR_METHODS:
            m = op["m"] = "evaluate"
        if m in ("evaluate", "evaluate_propositions", "assume"):
            items, named, aborted = self.interp(h) if kind != "var" else ([[H["dump"]["id"], rng.choice([0, 1, ["t", 0, 1]])]] if isinstance(H["dump"]["id"], str) else [], False, False)
            op["a"] = {"i": items}
            if named:
                tags.append("names-compound")
            if aborted:
                tags.append("abort-arg")
            if m == "evaluate_propositions":
                r = rng.random()
                if r < 0.3:
                    op["a"]["out"] = "constant"
                elif r < 0.4:
                    op["a"]["out"] = "tuple"
                elif r < 0.55 and self.p["fault"]["abort-callback"]:
                    n = len(H["info"]["leaves"]) + len(H["info"]["comps"]) if H["info"] else 1
                    op["a"]["out"] = {"raise_at": rng.randint(1, max(1, n))}
                    self.fault("abort-callback")
                    tags.append("abort-callback")
            if m == "assume":
                op["out"] = self.fresh()
        elif m in ("reduce", "negate", "json_rt", "b64_rt"):
            op["out"] = self.fresh()
        elif m == "add":
            used = set(H["info"]["comps"]) | {H["info"]["top"]}
            r = rng.random()
            leaves = sorted(self.leafb)
            if r < 0.15 and H["info"]["comps"]:
                # deliberately collide with an existing id
                rec = ["Any", [self.leaf(rng.choice(leaves))], rng.choice(sorted(H["info"]["comps"]))]
            elif r < 0.25:
                rec = self.leaf(rng.choice(leaves))
            elif r < 0.33 and self.complement_rule(h, set(used)) is not None:
                rec = self.complement_rule(h, used)
            elif r < 0.45 and self.recipe_of(h) is not None:
                # a rule that contains a *copy* of a sub-proposition the configurator already has (identical
                # definition, distinct object): legal sharing; equal nodes must de-duplicate
                subs = [n for n in R.walk(self.recipe_of(h)) if n[0] in R.LIST_CHILD_POS and n[0] != "Stingy"
                        and not R.refs(n)]
                if subs:
                    sub = copy.deepcopy(rng.choice(subs))
                    rec = [rng.choice(["All", "Any"]), [sub, self.leaf(rng.choice(leaves))], self.idspec(used)]
                else:
                    rec = self.compound(1, used, kinds=["All", "Any"], leaves=leaves)
            else:
                rec = self.compound(1 if rng.random() < 0.7 else 2, used,
                                    kinds=["All", "Any", "AtMost", "AtLeast", "Xor", "ccAny", "ccXor", "Imply"], leaves=leaves)
            op["a"] = {"recipe": rec}
            op["out"] = self.fresh()
        elif m == "to_ge_polyhedron":
            op["a"] = {"active": rng.random() < 0.6, "reduced": rng.random() < 0.3}
        elif m == "solve":
            spec = self.solver_spec(h)
            nobj = rng.choice([1, 1, 2, 3])
            op["a"] = {"objs": [self.weights(h) for _ in range(nobj)], "solver": spec,
                       "reduce": rng.random() < 0.25, "virt": rng.random() < 0.3}
            self._consume(op)
        elif m == "select":
            spec = self.solver_spec(h)
            npr = rng.choice([1, 1, 2, 3, 0]) if rng.random() < 0.1 else rng.choice([1, 1, 2, 3])
            op["a"] = {"prios": [self.weights(h, allow_zero=False) for _ in range(npr)], "solver": spec}
            if rng.random() < 0.5:
                op["a"]["only_leafs"] = rng.random() < 0.7
            self._consume(op)
        if self.async_abort and self.p["fault"].get("abort-async") and op.get("consume") != "defer" \
                and m not in ("eq", "id", "bounds") and rng.random() < 0.07:
            # an asynchronous exception delivered at the k-th line of library code executed inside this call
            op["abort_at"] = rng.choice([1, 2, 3, 5, 8, 13, 21, 34, 55, 89, 144, 233, 377, 610, 987])
            self.fault("abort-async")
            tags.append("abort-async")
        if m == "eq":
            others = [o for o in self.order if o != h and self.handles[o]["kind"] != "poly"]
            if not others:
                op["m"] = "id"
            else:
                rel = self.related(h)
                op["a"] = {"other": rng.choice(rel) if rel and rng.random() < 0.7 else rng.choice(others)}
        return op, tags

    def _consume(self, op):
        rng = self.rng
        if self.p["fault"]["defer"] and rng.random() < 0.35:
            op["consume"] = "defer"
            op["out"] = self.fresh("it")
            self.fault("defer")

    def _late_echo(self, creator_idx):
        """the request whose lazy result was just abandoned (maybe half consumed) is made again, identically, on
        the same object: a memo committed from a generator's cleanup would replay a truncated answer"""
        rng = self.rng
        if rng.random() < 0.5 and creator_idx is not None and creator_idx < len(self.ops):
            cop = self.ops[creator_idx]
            if cop.get("op") == "call" and cop["h"] in self.order:
                e = _retarget(self, cop, cop["h"])
                e["consume"] = "now"
                e.pop("out", None)
                before = len(self.ops)
                self.emit(e)
                if len(self.ops) > before:
                    self.events.append((e["m"], "same", ("echo", "after-abandon")))
                    self.hit("echo-after-abandoned-lazy-result")

    def step_iterators(self):
        """maybe consume / abandon a live lazy result"""
        rng = self.rng
        if not self.its:
            return False
        if rng.random() < 0.45:
            it = rng.choice(sorted(self.its))
            r = rng.random()
            if r < 0.55:
                ref = self.emit({"op": "next", "it": it})
                self.events.append(("next", "it"))
                if isinstance(ref, dict) and (ref.get("stop") or "exc" in ref):
                    del self.its[it]
            elif r < 0.85:
                self.emit({"op": "drain", "it": it})
                self.events.append(("drain", "it"))
                del self.its[it]
            else:
                if self.p["fault"]["abandon"]:
                    self.emit({"op": "drop", "it": it})
                    self.fault("abandon")
                    self.events.append(("drop", "it"))
                    self._late_echo(self.its.pop(it))
            return True
        return False


def uses_builtin(op):
    return engine.uses_builtin_solver(op)


STATE_BEARING = {"names-compound", "abort-arg", "abort-callback", "abort-async"}
STATE_METHODS = {"ge_polyhedron", "select", "leafs", "add", "solve", "to_ge_polyhedron", "assume", "negate",
                 "reduce", "json_rt", "b64_rt", "to_b64", "to_json"}

POLLUTERS = ["evaluate+cid", "evaluate_propositions+cid", "assume+cid", "evaluate+abort", "evaluate_propositions+cb",
             "ge_polyhedron", "select", "leafs", "add", "solve", "to_ge_polyhedron", "negate", "reduce", "json_rt",
             "b64_rt", "to_json"]
OBSERVERS = ["evaluate", "evaluate_propositions", "to_ge_polyhedron", "ge_polyhedron", "select", "default_prios",
             "to_json", "to_text", "flatten", "solve", "errors", "leafs"]
RELATIONS = ["same", "alias", "twin", "unrelated"]
N_TRIPLES = len(POLLUTERS) * len(OBSERVERS) * len(RELATIONS)


def triple_of(index):
    # stride coprime to N_TRIPLES (768 = 2^8 * 3): a full cycle still visits every triple once, but every relation
    # and every polluter shows up within the first few dozen runs instead of relation by relation
    i = (index * 295) % N_TRIPLES
    return (POLLUTERS[i % len(POLLUTERS)], OBSERVERS[(i // len(POLLUTERS)) % len(OBSERVERS)],
            RELATIONS[i // (len(POLLUTERS) * len(OBSERVERS))])


def gen_c09_pressure(rng, oracle, p, tier):
    """cache-pressure session: X is queried, then well over 128 other configurators are queried in the same
    process (a default-sized LRU / any bounded table evicts and recycles), then an identical X is rebuilt and
    asked the same things – and so is the original X"""
    p = dict(p)
    p["nleaves"] = rng.choice([5, 6, 8])
    p["depth"] = 1
    p["fan"] = 3
    p["int_leaf_prob"] = rng.choice([0, 0.2])
    p["builtin_solver_prob"] = 0.3
    g = Gen(rng, p, oracle)
    x = g.new_model(want_cfg=True)
    asked = []
    for m in ["ge_polyhedron", "default_prios", "leafs", "select", "to_ge_polyhedron", "to_text"]:
        if rng.random() < 0.8 or m == "ge_polyhedron":
            op, tags = g.op_for(x, m)
            op.pop("consume", None)
            if op.get("out", "").startswith("it"):
                op.pop("out")
            before = len(g.ops)
            g.emit(op)
            if len(g.ops) > before:
                asked.append(op)
                g.events.append((op["m"], "first", ("pressure",)))
    n_others = rng.randint(130, 160) if tier == "thorough" or rng.random() < 0.7 else rng.randint(20, 60)
    for i in range(n_others):
        try:
            h = g.new_model(want_cfg=True, tries=3)
        except RuntimeError:
            continue
        g.emit({"op": "call", "h": h, "m": rng.choice(["ge_polyhedron", "ge_polyhedron", "leafs", "default_prios"])})
        if rng.random() < 0.1:
            g.emit({"op": "forget", "h": h})
            g.order.remove(h)
    g.events.append(("population", "other", (str(n_others // 32 * 32) + "+",)))
    g.hit("cache-pressure:other-configurators-queried", n_others)
    clone = g.fresh()
    g.emit({"op": "new", "h": clone, "recipe": copy.deepcopy(g.handles[x]["recipe"])}, {"twin_of": x})
    for tgt, tag in ((clone, "twin"), (x, "first")):
        if tgt not in g.handles:
            continue
        for op in asked:
            e = _retarget(g, op, tgt)
            g.emit(e)
            g.events.append((e["m"], tag, ("echo", "after-pressure")))
    g.hit("cache-pressure:identical-configurator-rebuilt-and-asked-again")
    meta = {"profile": p, "triple": ["pressure", "pressure", "twin"], "fired": {"cache-pressure": 1}, "events": g.events,
            "skipped": g.skipped, "hits": g.hits}
    return g.ops, g.refs, meta


def gen_c09(rng, oracle, run_index, tier="quick"):
    """program for C09: population of models/configurators with aliases and near-twins, full op mix"""
    p = make_profile(rng, tier)
    if rng.random() < (0.012 if tier == "quick" else 0.04):
        return gen_c09_pressure(rng, oracle, p, tier)
    pol, obs, rel = triple_of(run_index)
    if rng.random() < 0.08:
        # the diagonal: the same kind of request first on one object and then on a related one (the observer then
        # replays the polluter's very request half of the time) – where memos keyed by weak identity show
        diag = [a for a in POLLUTERS if a.split("+")[0] in OBSERVERS]
        pol = rng.choice(diag + ["solve", "select", "to_ge_polyhedron"])
        obs = pol.split("+")[0]
        rel = rng.choice(["twin", "twin", "alias", "same"])
    need_cfg = pol in ("ge_polyhedron", "select", "leafs", "add") or obs in ("ge_polyhedron", "select", "default_prios", "leafs")
    if pol.endswith("+cid"):
        p["compound_key_prob"] = max(p["compound_key_prob"], 0.25)
        p["explicit_id_prob"] = max(p["explicit_id_prob"], 0.5)
    if rel == "twin":
        p["int_leaf_prob"] = max(p["int_leaf_prob"], 0.5)
        p["bounds_family"] = rng.choice(["twin", "small", "neg"])
        p["depth"] = max(p["depth"], 2)
        if rng.random() < 0.5:
            p["explicit_id_prob"] = min(p["explicit_id_prob"], 0.2)   # generated ids: state keyed by id collides
    g = Gen(rng, p, oracle)
    g.async_abort = True
    pair_solver = rng.choice(["builtin", "builtin", {"mode": "exact"}, None])
    echo_prob = rng.choice([0.0, 0.1, 0.25])
    if rel == "twin":
        # near-twins are only worth having if the same things are asked of both
        echo_prob = rng.choice([0.15, 0.3, 0.4])
        p["builtin_solver_prob"] = max(p["builtin_solver_prob"], 0.3)
    forget_prob = rng.choice([0.0, 0.0, 0.03, 0.08])
    # ---- setup population
    first = g.new_model(want_cfg=True if need_cfg else None)
    partner = first
    if rel == "alias":
        partner = g.new_model(want_cfg=True if need_cfg else None, alias_of=first)
        if g.handles[partner].get("alias_of") != first:
            rel = "same"
            partner = first
    elif rel == "twin":
        partner = g.twin(first)
        if partner is None:
            rel = "same"
            partner = first
    elif rel == "unrelated":
        partner = g.new_model(want_cfg=True if need_cfg else None)
    for _ in range(p["nmodels"] - 1):
        r = rng.random()
        if r < p["alias_prob"]:
            g.new_model(alias_of=rng.choice(g.order))
        elif r < p["alias_prob"] + p["twin_prob"]:
            g.twin(rng.choice([h for h in g.order if g.handles[h]["kind"] != "poly"]))
        else:
            g.new_model()
    nops = p["nops"]
    pol_op = None
    pol_at = rng.randint(0, max(0, nops // 2))
    obs_at = rng.randint(pol_at + 1, nops)
    done_pol = done_obs = False
    n = 0
    while n < nops or not done_obs:
        if n > nops + 5:
            break
        if g.step_iterators():
            n += 1
            continue
        if p.get("soak") and rng.random() < 0.05:
            try:
                if rng.random() < 0.5 and g.order:
                    g.twin(rng.choice([h for h in g.order if g.handles[h]["kind"] != "poly"]))
                else:
                    g.new_model()
            except RuntimeError:
                pass
        if rng.random() < forget_prob and len(g.order) > 2:
            # the caller forgets an object (freed, its address becomes reusable) and builds a same-shaped one right
            # away, then repeats what it had asked the dead one: anything keyed by id()/address would now serve
            # the dead object's data (same-shaped rebuilds land on the freed top-level slot most of the time)
            referenced = set()
            for o in g.ops:
                if o["op"] == "new":
                    referenced.update(R.refs(o["recipe"]))
            cands = [h for h in g.order if h not in (first, partner) and g.handles[h].get("recipe") is not None
                     and g.handles[h]["kind"] in ("prop", "cfg") and h not in referenced
                     and not R.refs(g.handles[h]["recipe"])]
            hist = [h for h in cands if g.history.get(h)]
            if cands:
                dead = rng.choice(hist) if hist else rng.choice(cands)
                past = list(g.history.get(dead, []))
                rec = g.handles[dead]["recipe"]
                t = g.twin(dead) if rng.random() < 0.7 else None
                if t is not None:
                    # the twin was built while the original was alive: rebuild it *after* the free instead
                    trec = g.ops[-1]["recipe"]
                    g.ops.pop(); g.refs.pop(); g.order.remove(t); del g.handles[t]
                else:
                    trec = copy.deepcopy(rec)
                g.emit({"op": "forget", "h": dead})
                g.order.remove(dead)
                g.events.append(("forget", _rel_tag(g, dead, first), ()))
                t = g.fresh()
                ref = g.emit({"op": "new", "h": t, "recipe": trec}, {"twin_of": dead})
                if t in g.handles:
                    g.hit("object-forgotten-then-same-shaped-object-built")
                    rng.shuffle(past)
                    for pop in past[:3]:
                        e = _retarget(g, pop, t)
                        before = len(g.ops)
                        g.emit(e, {"base": t} if e.get("out") and e["m"] in ("assume", "reduce", "negate", "add", "json_rt", "b64_rt") else None)
                        if len(g.ops) > before:
                            g.events.append((e["m"], "reborn", ("echo",)))
                            n += 1
                n += 1
                continue
        forced = None
        if n >= pol_at and not done_pol:
            forced = ("pol", first, pol)
            done_pol = True
        elif n >= obs_at and done_pol and not done_obs:
            forced = ("obs", partner, obs)
            done_obs = True
        if forced:
            role, h, what = forced
            m = what.split("+")[0]
            if m in ("ge_polyhedron", "select", "leafs", "add", "default_prios") and g.handles[h]["kind"] != "cfg":
                m = "evaluate"
            if g.handles[h]["kind"] == "var":
                m = "evaluate"
            save = dict(p["fault"]), p["compound_key_prob"]
            if what.endswith("+cid"):
                p["compound_key_prob"] = 1.0
            if what.endswith("+abort"):
                p["fault"]["abort-arg"] = True
            if m in ("solve", "select"):
                g.force_solver = pair_solver   # polluter and observer talk to the same kind of solver
            op, tags = g.op_for(h, m)
            g.force_solver = None
            if role == "obs" and pol.split("+")[0] == obs and rel in ("twin", "same", "alias") and pol_op is not None \
                    and rng.random() < 0.5 and pol_op["m"] == m:
                # the very same request on the partner: a cache keyed by weak identity replays the first answer
                op = _retarget(g, pol_op, h)
            if role == "pol":
                pol_op = op
            if what.endswith("+abort") and "abort-arg" not in tags and op.get("a", {}).get("i"):
                items = op["a"]["i"]
                items[rng.randrange(len(items))][1] = rng.choice([["bad", "x"], ["t", 1, 0]])
                g.fault("abort-arg")
                tags.append("abort-arg")
            if what.endswith("+cb") and g.handles[h]["info"]:
                inf = g.handles[h]["info"]
                op["a"]["out"] = {"raise_at": rng.randint(1, max(1, len(inf["leaves"]) + len(inf["comps"])))}
                g.fault("abort-callback")
                tags.append("abort-callback")
            p["fault"], p["compound_key_prob"] = save[0], save[1]
            tags.append(role)
        else:
            h = g.pick_target(prefer=partner if done_pol else first)
            op, tags = g.op_for(h)
        before = len(g.ops)
        ref = g.emit(op, {"base": op["h"]} if op.get("out") and op["m"] in ("assume", "reduce", "negate", "add", "json_rt", "b64_rt") else None)
        if len(g.ops) == before:
            n += 1
            continue
        g.events.append((op["m"], _rel_tag(g, op["h"], first), tuple(sorted(tags))))
        n += 1
        if op.get("consume") == "defer" and op.get("out") in g.its and rng.random() < 0.3:
            # scripted: take some but not all items of the lazy result, abandon it, ask the same thing again
            it = op["out"]
            nreq = len((op.get("a") or {}).get("prios") or (op.get("a") or {}).get("objs") or [])
            for _ in range(rng.randint(1, max(1, nreq - 1))):
                ref2 = g.emit({"op": "next", "it": it})
                g.events.append(("next", "it", ()))
                if isinstance(ref2, dict) and (ref2.get("stop") or "exc" in ref2):
                    break
            g.emit({"op": "drop", "it": it})
            g.events.append(("drop", "it", ()))
            g.fault("abandon")
            cidx = g.its.pop(it)
            e = _retarget(g, g.ops[cidx], op["h"])
            e["consume"] = "now"
            e.pop("out", None)
            g.emit(e)
            g.events.append((e["m"], "same", ("echo", "after-abandon")))
            g.hit("echo-after-abandoned-lazy-result")
            n += 3
        if op["op"] == "call" and rng.random() < echo_prob:
            # echo: the identical request on a near-twin / alias / the same object
            rel_h = [o for o in g.related(op["h"]) if g.handles[o]["kind"] == g.handles[op["h"]]["kind"]]
            tgt = rng.choice(rel_h) if rel_h and rng.random() < 0.7 else op["h"]
            e = _retarget(g, op, tgt, perturb=rng.random() < 0.4)
            before = len(g.ops)
            g.emit(e, {"base": e["h"]} if e.get("out") and e["m"] in ("assume", "reduce", "negate", "add", "json_rt", "b64_rt") else None)
            if len(g.ops) > before:
                g.events.append((e["m"], _rel_tag(g, e["h"], first), ("echo",)))
                g.hit("echo-same-request-on-" + ("same-object" if tgt == op["h"] else "related-object"))
                n += 1
        if rng.random() < 0.08:
            g.emit({"op": "audit"})
            g.events.append(("audit", "-", ()))
    # drain what is left half of the time (abandon otherwise)
    for it in sorted(g.its):
        if rng.random() < 0.5:
            g.emit({"op": "drain", "it": it})
    meta = {"profile": {k: v for k, v in p.items()}, "triple": [pol, obs, rel], "fired": g.fired,
            "events": g.events, "skipped": g.skipped, "hits": g.hits}
    return g.ops, g.refs, meta


def _perturb(g, e):
    """near-identical request: one value moved to a hash-colliding / neighbouring one (-1 <-> -2, else +-1)"""
    rng = g.rng
    a = e.get("a") or {}

    def tweak(v):
        if isinstance(v, list) and v and v[0] in ("np", "fl"):
            t = tweak(v[1])
            return None if t is None else [v[0], t]
        if isinstance(v, bool) or not isinstance(v, int):
            return None
        if v == -1:
            return -2
        if v == -2:
            return -1
        return v + rng.choice([-1, 1])
    for key in ("i",):
        items = a.get(key)
        if items:
            idx = [j for j, (k, v) in enumerate(items) if tweak(v) is not None]
            neg = [j for j in idx if items[j][1] in (-1, -2)]
            if idx:
                j = rng.choice(neg or idx)
                items[j][1] = tweak(items[j][1])
                return True
    for key in ("objs", "prios"):
        lst = a.get(key)
        if lst:
            cands = [(x, j) for x, d in enumerate(lst) for j, (k, v) in enumerate(d) if tweak(v) is not None]
            neg = [(x, j) for x, j in cands if lst[x][j][1] in (-1, -2)]
            if cands:
                if neg and len(neg) >= 2 and rng.random() < 0.6:
                    for x, j in neg:      # swap every -1 <-> -2
                        lst[x][j][1] = tweak(lst[x][j][1])
                else:
                    x, j = rng.choice(neg or cands)
                    nv = tweak(lst[x][j][1])
                    lst[x][j][1] = nv if (nv != 0 and nv != ["np", 0] and nv != ["fl", 0]) or key == "objs" else 1
                return True
    return False


def _retarget(g, op, h, perturb=False):
    e = copy.deepcopy(op)
    e["h"] = h
    if perturb and _perturb(g, e):
        g.hit("echo-perturbed(-1<->-2 or +-1)")
    if e.get("out"):
        e["out"] = g.fresh("it" if e.get("consume") == "defer" else "h")
    return e


def _rel_tag(g, h, first):
    if h == first:
        return "first"
    H = g.handles.get(h, {})
    if H.get("alias_of") == first:
        return "alias"
    if H.get("twin_of") == first:
        return "twin"
    if H.get("base") == first:
        return "derived"
    return "other"


def signature(meta):
    """abstract history: op-kind sequence + relation pattern (+ fault tags)"""
    return tuple((e[0], e[1], e[2] if len(e) > 2 else ()) for e in meta["events"])


def nontrivial(meta):
    """contains a potentially state-bearing event followed by a later observation on a related object"""
    ev = meta["events"]
    for i, e in enumerate(ev):
        tags = set(e[2]) if len(e) > 2 else set()
        if (tags & STATE_BEARING) or e[0] in STATE_METHODS:
            for f in ev[i + 1:]:
                if f[0] not in ("audit", "drop") and f[1] in ("first", "alias", "twin", "derived", "it", e[1]):
                    return True
    return False


def pairs(meta, window=8):
    """abstract (state-bearing event -> later observation) pairs of one run: a coarser, additive measure of
    the distinct interleavings reached than whole-history signatures"""
    out = set()
    ev = meta.get("events") or []
    for i, e in enumerate(ev):
        tags = tuple(e[2]) if len(e) > 2 else ()
        if (set(tags) & STATE_BEARING) or e[0] in STATE_METHODS or e[0] in ("add", "restore", "snapshot", "mutate+restore"):
            for f in ev[i + 1:i + 1 + window]:
                if f[0] in ("audit", "drop"):
                    continue
                out.add((e[0], tuple(t for t in tags if t in STATE_BEARING or t in ("echo", "accepted", "refused")), e[1],
                         f[0], f[1]))
    return out
