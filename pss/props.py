"""Per-property specs: how to generate a case, how to check it, how to re-check a candidate program."""
from . import engine, gen, procs


class C09:
    """Queries are pure; results are independent of call history (DESIGN §4 C09)."""
    id = "C09"

    @staticmethod
    def generate(rng, index, tier, mask, cache):
        oracle = lambda ops, k: engine.reference(ops, k, mask, cache)
        ops, refs, meta = gen.gen_c09(rng, oracle, index, tier)
        meta["alt_sut"] = (tier == "thorough" and index % 2 == 0) or index % 8 == 3
        return {"ops": ops, "refs": refs, "meta": meta}

    @staticmethod
    def check(case, mask, cache):
        sut = procs.run_child(engine.child_all, (case["ops"],), shims=mask)
        div = engine.first_divergence(case["ops"], sut, case["refs"], raw_text=True)
        checked = len(case["ops"])
        hits = {}
        for r, ref in zip(sut["results"], case["refs"]):
            if isinstance(r, dict) and isinstance(ref, dict) and "raw" in r and "raw" in ref:
                k = "to_b64:raw-text-equals-pristine" if r["raw"] == ref["raw"] else "to_b64:raw-text-differs-from-pristine(not gated)"
                hits[k] = hits.get(k, 0) + 1
        if div is None and case["meta"].get("alt_sut"):
            # the same history in a second interpreter (other PYTHONHASHSEED) against the same references
            alt = procs.alt_zygote(4242).call("child_all", [case["ops"], {}], shims=mask)
            div = engine.first_divergence(case["ops"], alt, case["refs"], raw_text=True)
            if div is not None:
                div["interpreter"] = "PYTHONHASHSEED=4242"
            checked *= 2
        return {"divergence": div, "sut": sut, "checked": checked, "hits": hits}

    @staticmethod
    def check_raw(case, cache):
        ops = case["ops"]
        refs = [None if op["op"] == "audit" else engine.reference(ops, k, (), cache) for k, op in enumerate(ops)]
        sut = procs.run_child(engine.child_all, (ops,), shims=(), timeout=engine.raw_timeout(ops))
        return engine.first_divergence(ops, sut, refs, raw_text=True)

    @staticmethod
    def recheck(ops, mask, cache):
        div, _, refs = engine.evaluate(ops, mask, cache, raw_text=True)
        if div is None:
            alt = procs.alt_zygote(4242).call("child_all", [ops, {}], shims=mask)
            div = engine.first_divergence(ops, alt, refs, raw_text=True)
            if div is not None:
                div["interpreter"] = "PYTHONHASHSEED=4242"
        return div

    @staticmethod
    def signature(meta):
        return gen.signature(meta)

    @staticmethod
    def nontrivial(meta):
        return gen.nontrivial(meta)


from .c15 import C15  # noqa: E402

from .c18 import C18  # noqa: E402

from .c17 import C17  # noqa: E402

PROPS = {"C09": C09, "C15": C15, "C17": C17, "C18": C18}
