"""Batch driver: seeds -> programs -> verdicts -> evidence.  Never calls the library itself."""
import concurrent.futures as cf
import hashlib
import json
import multiprocessing
import os
import random
import sys
import time
import traceback

from . import engine, gen, procs

VERIF = os.path.dirname(os.path.dirname(os.path.abspath(__file__)))
KNOWN_FILE = os.path.join(VERIF, "known_findings.json")


def load_known():
    with open(KNOWN_FILE) as f:
        return json.load(f)


def mask_for(prop):
    """neutralisers of all findings with status `known` (any property: a recorded defect must not
    re-surface as an alarm of another check); `fixed` entries suppress nothing."""
    return tuple(sorted(e["neutraliser"] for e in load_known()["findings"]
                        if e["status"] == "known" and e.get("neutraliser")))


def seed_for(base, prop, index):
    return int(hashlib.sha256(f"{base}:{prop}:{index}".encode()).hexdigest()[:15], 16)


_CACHE = engine.RefCache()


def digest_of(ops, refs, sut_results):
    h = hashlib.sha256()
    h.update(json.dumps([ops, [engine.strip(r) for r in refs], [engine.strip(r) for r in sut_results]],
                        sort_keys=True, separators=(",", ":")).encode())
    return h.hexdigest()


def run_one(prop, base_seed, index, tier, mask, want_raw=False, want_digest=False, shrink_it=True):
    """one simulated run. returns a JSON-able summary (and the violation, shrunk, if any)."""
    from . import props
    t0 = time.time()
    seed = seed_for(base_seed, prop, index)
    rng = random.Random(seed)
    f0 = procs.STATS["forks"]
    spec = props.PROPS[prop]
    out = {"index": index, "seed": seed, "prop": prop}
    try:
        case = spec.generate(rng, index, tier, mask, _CACHE)
        verdict = spec.check(case, mask, _CACHE)
        for hk, hv in sorted((verdict.get("hits") or {}).items()):
            case["meta"].setdefault("hits", {})
            case["meta"]["hits"][hk] = case["meta"]["hits"].get(hk, 0) + hv
        fps = set()
        sres = (verdict.get("sut") or {})
        for rr in (sres.get("results") or []):
            if isinstance(rr, dict) and "audit" in rr:
                fps.add(hashlib.sha256(json.dumps(rr["audit"], sort_keys=True).encode()).hexdigest()[:12])
        if sres.get("audit"):
            fps.add(hashlib.sha256(json.dumps(sres["audit"], sort_keys=True).encode()).hexdigest()[:12])
        out["state_fps"] = sorted(fps)
        out.update({"nops": len(case["ops"]), "meta": case["meta"], "violation": None,
                    "checked": verdict.get("checked", len(case["ops"]))})
        if want_digest:
            out["digest"] = digest_of(case["ops"], [r for r in case["refs"]], verdict["sut"]["results"])
        dv = verdict["divergence"]
        if dv is not None and dv.get("kind") in ("operr", "missing"):
            # the SUT could not even execute an op although nothing diverged before it: that is a malformed
            # program (generator bug), never a verdict about the library
            raise procs.HarnessError(f"malformed program: SUT op error without an earlier divergence at op {dv.get('at')}: "
                                     f"{json.dumps(dv.get('sut'))[:300]} program={json.dumps(case['ops'])[:1500]}")
        if verdict["divergence"] is not None and not shrink_it:
            out["violation"] = {"unshrunk": True}
        elif verdict["divergence"] is not None:
            from . import shrink
            small = shrink.minimise(spec, case, verdict["divergence"], mask, _CACHE)
            small["unshrunk_ops"] = case["ops"]
            small["unshrunk_divergence"] = verdict["divergence"]
            out["violation"] = small
        elif want_raw and mask:
            # informational execution without neutralisers (counts how often the recorded findings are met); the
            # built-in solver need not terminate on a state the recorded write-back left behind – no verdict hangs on it
            try:
                raw = spec.check_raw(case, _CACHE)
            except procs.ChildTimeout:
                if engine.raw_timeout(case["ops"]) is None:
                    raise
                out["raw_inconclusive"] = "builtin-solver-timeout"
            else:
                out["raw_divergence"] = None if raw is None else {"kind": raw["kind"], "at": raw["at"],
                                                                  "m": (raw.get("op") or {}).get("m")}
        if index % 50 == 0:
            out["sample"] = case["ops"]
    except procs.HarnessError as e:
        out["harness_error"] = str(e)[-2000:]
    except Exception as e:  # noqa
        out["harness_error"] = "driver exception: " + traceback.format_exc()[-3000:]
    out["wall"] = time.time() - t0
    out["forks"] = procs.STATS["forks"] - f0
    return out


def _init_worker():
    # zygote: import the library and do nothing else
    import pss.worker  # noqa


def batch(prop, base_seed, tier, budget_s, jobs, start_index=0, max_runs=None, raw_every=5, digests=False):
    """run seeds until the wall budget is used; yields summaries in completion order"""
    mask = mask_for(prop)
    ctx = multiprocessing.get_context("fork")
    t_end = time.time() + budget_s
    results = []
    nxt = start_index
    pending = set()
    with cf.ProcessPoolExecutor(max_workers=jobs, mp_context=ctx, initializer=_init_worker) as pool:
        def submit():
            nonlocal nxt
            fut = pool.submit(run_one, prop, base_seed, nxt, tier, mask, nxt % raw_every == 0, digests)
            fut.index = nxt
            pending.add(fut)
            nxt += 1
        try:
            while len(pending) < jobs * 2 and (max_runs is None or nxt - start_index < max_runs):
                submit()
            while pending:
                done, _ = cf.wait(pending, timeout=max(1.0, procs.CHILD_TIMEOUT * 3), return_when=cf.FIRST_COMPLETED)
                if not done:
                    results.append({"harness_error": "batch stalled: no run finished in time", "index": -1})
                    break
                for fut in done:
                    pending.discard(fut)
                    try:
                        results.append(fut.result())
                    except Exception as e:  # noqa
                        results.append({"harness_error": f"worker failed: {e!r}", "index": getattr(fut, 'index', -1)})
                    stop = any(r.get("violation") for r in results[-1:])
                    if time.time() < t_end and not stop and (max_runs is None or nxt - start_index < max_runs):
                        submit()
        finally:
            for fut in pending:
                fut.cancel()
            pool.shutdown(wait=False, cancel_futures=True)
    return results
