"""The simulated solver peer (DESIGN §2.1, §2.4): a stub implementing the documented solver
interface `solver(polyhedron, objectives) -> iterable of (vector|None, objective value, status)`.

Healthy behaviour ("exact") is an exact brute-force ILP over the bounds box.  Fault behaviour is
fully determined by the spec carried in the op – no randomness here.  Everything the peer is
handed is recorded (canonically) into the op's seam log.
"""
import itertools

import numpy as np

from . import canon as C

BOX_LIMIT = 1 << 16


class PeerLimit(Exception):
    """model too large for the exact peer – generator bug, never a verdict"""


class PeerDown(RuntimeError):
    pass


class PeerTimeout(Exception):
    pass


def n_unreachable(polyhedron):
    return False


def _bounds_of(polyhedron):
    vs = polyhedron.A.variables
    return [(int(v.bounds.lower), int(v.bounds.upper)) for v in vs]


def brute_force(A, b, bounds, objectives):
    """exact maximisation of each objective over {x integer in box : A x >= b}.
    ties: first optimum in lexicographic enumeration order (deterministic)."""
    n = len(bounds)
    size = 1
    for lo, hi in bounds:
        size *= (hi - lo + 1)
        if size > BOX_LIMIT:
            raise PeerLimit(f"box too large ({n} columns)")
    if n == 0:
        X = np.zeros((1, 0), dtype=np.int64)
    else:
        grids = np.meshgrid(*[np.arange(lo, hi + 1, dtype=np.int64) for lo, hi in bounds], indexing="ij")
        X = np.stack([g.ravel() for g in grids], axis=1)
    A = np.asarray(A, dtype=np.int64).reshape(-1, n)
    b = np.asarray(b, dtype=np.int64).reshape(-1)
    feas = (X @ A.T >= b[None, :]).all(axis=1) if A.shape[0] else np.ones(len(X), dtype=bool)
    out = []
    for obj in objectives:
        obj = np.asarray(obj)
        if obj.dtype.kind == "f":
            if not np.all(np.isfinite(obj)) or np.any(obj != np.round(obj)):
                raise PeerLimit("non-integral objective")
        if np.any(np.abs(obj.astype(np.float64)) > 2.0 ** 45):
            raise PeerLimit("objective too large for exact int64 arithmetic")
        obj = obj.astype(np.int64).reshape(-1)
        if obj.shape[0] != n:
            raise PeerDown(f"objective length {obj.shape[0]} != number of columns {n}")
        if not feas.any():
            out.append((None, 0, 4))
            continue
        vals = X @ obj
        vals = np.where(feas, vals, np.iinfo(np.int64).min)
        k = int(np.argmax(vals))
        out.append((X[k].copy(), int(vals[k]), 5))
    return out


def _cast(vec, vectype):
    if vec is None:
        return None
    if vectype == "list":
        return [int(x) for x in vec]
    if vectype == "float":
        return np.asarray(vec, dtype=np.float64)
    if vectype == "int32":
        return np.asarray(vec, dtype=np.int32)
    return np.asarray(vec, dtype=np.int64)


def make_solver(spec, seam):
    mode = spec.get("mode", "exact")
    none_idx = set(spec.get("none", []))
    lazy = spec.get("lazy", False)
    status = spec.get("status")
    vectype = spec.get("vectype", "int64")

    def solver(polyhedron, objectives):
        objectives = list(objectives)
        seam.append({"poly": C.canon(polyhedron), "ptype": C.clsname(polyhedron),
                     "objs": [C.dump_ndarray(o) for o in objectives]})
        if mode == "raise":
            kind = spec.get("exc", "msg")
            if kind == "bare":
                raise PeerTimeout          # no arguments at all
            if kind == "assert":
                assert n_unreachable(polyhedron)
            if kind == "stop":
                return [next(iter(()))]    # StopIteration out of the solver call
            if kind == "key":
                raise KeyError(("peer", 7))
            raise PeerDown("peer unavailable")
        n = polyhedron.A.shape[1]
        if mode == "exact":
            answers = brute_force(np.asarray(polyhedron.A), np.asarray(polyhedron.b), _bounds_of(polyhedron),
                                  objectives)
        elif mode == "position":
            answers = []
            for o in objectives:
                v = np.arange(1, n + 1, dtype=np.int64)
                answers.append((v, int(np.asarray(o, dtype=np.float64).astype(np.int64) @ v)
                                if np.asarray(o).shape == (n,) else 0, 5))
        elif mode == "ones":
            answers = [(np.ones(n, dtype=np.int64), 0, 5) for _ in objectives]
        elif mode == "lower":
            lo = np.array([b[0] for b in _bounds_of(polyhedron)], dtype=np.int64)
            answers = [(lo.copy(), 0, 2) for _ in objectives]
        else:
            raise PeerLimit(f"unknown peer mode {mode}")
        final = []
        for i, (v, z, st) in enumerate(answers):
            if i in none_idx:
                final.append((None, z if spec.get("none_keep_z") else 0, 1 if status is None else status))
            else:
                final.append((_cast(v, vectype), z, st if status is None else status))
        seam[-1]["answers"] = [[None if v is None else [C._i(x) for x in np.asarray(v).ravel().tolist()], C._i(z), C._i(st)]
                               for v, z, st in final]
        if lazy:
            def gen():
                for x in final:
                    yield x
            return gen()
        return final

    return solver
