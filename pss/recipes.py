"""Pure-data helpers over recipes (no library import)."""

LIST_CHILD_POS = {"AtLeast": 2, "AtMost": 2, "All": 1, "Any": 1, "Xor": 1, "ExactlyOne": 1, "XNor": 1,
                  "ccAny": 1, "ccXor": 1, "Stingy": 1}


def children(r):
    t = r[0]
    if t in LIST_CHILD_POS:
        return list(r[LIST_CHILD_POS[t]])
    if t == "Imply":
        return [r[1], r[2]]
    if t == "Not":
        return [r[1]]
    return []


def with_children(r, ch):
    t = r[0]
    r = list(r)
    if t in LIST_CHILD_POS:
        r[LIST_CHILD_POS[t]] = list(ch)
    elif t == "Imply":
        r[1], r[2] = ch
    elif t == "Not":
        r[1] = ch[0]
    return r


def refs(r, out=None):
    out = [] if out is None else out
    if r[0] == "ref":
        out.append(r[1])
    else:
        for c in children(r):
            refs(c, out)
    return out


def walk(r):
    yield r
    for c in children(r):
        yield from walk(c)


def size(r):
    return sum(1 for _ in walk(r))


ID_POS = {"AtLeast": 3, "AtMost": 3, "All": 2, "Any": 2, "Xor": 2, "ExactlyOne": 2, "XNor": 2, "Imply": 3,
          "ccAny": 3, "ccXor": 3, "Stingy": 2}


def idspec(r):
    p = ID_POS.get(r[0])
    if p is None:
        return None
    v = r[p]
    if isinstance(v, list):
        return v[1]
    return v


def named_ids(r, resolve_ref=None, out=None):
    """compound ids the recipe names explicitly (everything else the library generates itself)"""
    out = set() if out is None else out
    for n in walk(r):
        if n[0] == "ref" and resolve_ref is not None:
            sub = resolve_ref(n[1])
            if sub is not None:
                named_ids(sub, resolve_ref, out)
        i = idspec(n)
        if i is not None:
            out.add(i)
        if n[0] in ("cicJE", "from_json"):
            _json_ids(n[1], out)
    return out


def _json_ids(d, out):
    """every "id" given in a JSON / cicJE description (leaf ids included: harmless, only compounds are filtered)"""
    if isinstance(d, dict):
        if isinstance(d.get("id"), str):
            out.add(d["id"])
        for v in d.values():
            _json_ids(v, out)
    elif isinstance(d, list):
        for v in d:
            _json_ids(v, out)
