#!/venv/bin/python
"""PSS – puan session simulator.  Entry point for every registered check.

  run.py check <Cxx> [--tier quick|thorough]      exit 0 ok / 1 VIOLATION / 2 HARNESS-ERROR
  run.py replay <file>                            exit 1 if the recorded violation reproduces
  run.py selftest                                 determinism self-test of the simulator
  run.py digest <Cxx> <first> <count>             print per-run digests (used by selftest)

Env: VERIF_SEED, VERIF_TIER, VERIF_JOBS, VERIF_BUDGET_S.
"""
import os
import sys

HERE = os.path.dirname(os.path.abspath(__file__))

# one-integer determinism needs a fixed string-hash seed in every interpreter we start
if os.environ.get("PYTHONHASHSEED") is None:
    os.environ["PYTHONHASHSEED"] = os.environ.get("PSS_HASHSEED", "0")
    os.environ["RUST_BACKTRACE"] = "0"
    os.execv(sys.executable, [sys.executable, "-W", "ignore::SyntaxWarning"] + sys.argv)

import warnings
warnings.filterwarnings("ignore", category=SyntaxWarning)
sys.path.insert(0, HERE)

import argparse
import hashlib
import json
import subprocess
import time


def _assert_repo():
    import puan
    p = os.path.realpath(puan.__file__)
    want = os.path.realpath(os.environ.get("PSS_REPO", "/repo")) + "/"
    if not p.startswith(want):
        print(f"HARNESS-ERROR puan imported from {p}, not {want}")
        sys.exit(2)


def cmd_check(args):
    from pss import driver, report
    _assert_repo()
    prop = args.prop
    tier = args.tier or os.environ.get("VERIF_TIER") or "quick"
    base = int(os.environ.get("VERIF_SEED", "20261002"))
    jobs = int(os.environ.get("VERIF_JOBS", str(min(16, os.cpu_count() or 4))))
    budget = float(os.environ.get("VERIF_BUDGET_S", "50" if tier == "quick" else "1200"))
    t0 = time.time()
    print(f"PSS check property={prop} tier={tier} seed={base} jobs={jobs} budget_s={budget}")
    sys.stdout.flush()
    code = report.run_check(prop, tier, base, jobs, budget, t0)
    sys.exit(code)


def cmd_replay(args):
    from pss import driver, report
    _assert_repo()
    sys.exit(report.replay(args.file, verbose=True))


def cmd_digest(args):
    from pss import driver
    _assert_repo()
    mask = driver.mask_for(args.prop)
    driver._init_worker()
    for i in range(args.first, args.first + args.count):
        r = driver.run_one(args.prop, args.seed, i, "quick", mask, False, True, False)
        if r.get("harness_error"):
            print(json.dumps({"index": i, "error": r["harness_error"]}))
        else:
            print(json.dumps({"index": i, "digest": r["digest"], "nops": r["nops"],
                              "violation": bool(r.get("violation"))}))


def cmd_selftest(args):
    from pss import report
    _assert_repo()
    sys.exit(report.selftest(int(os.environ.get("VERIF_SEED", "20261002")), args.count, verbose=True))


def main():
    ap = argparse.ArgumentParser()
    sub = ap.add_subparsers(dest="cmd", required=True)
    c = sub.add_parser("check")
    c.add_argument("prop")
    c.add_argument("--tier", default=None)
    c.set_defaults(fn=cmd_check)
    r = sub.add_parser("replay")
    r.add_argument("file")
    r.set_defaults(fn=cmd_replay)
    d = sub.add_parser("digest")
    d.add_argument("prop")
    d.add_argument("first", type=int)
    d.add_argument("count", type=int)
    d.add_argument("--seed", type=int, default=20261002)
    d.set_defaults(fn=cmd_digest)
    z = sub.add_parser("zygote")
    z.set_defaults(fn=lambda a: __import__("pss.procs", fromlist=["x"]).zygote_main())
    s = sub.add_parser("selftest")
    s.add_argument("--count", type=int, default=24)
    s.set_defaults(fn=cmd_selftest)
    args = ap.parse_args()
    args.fn(args)


if __name__ == "__main__":
    main()
